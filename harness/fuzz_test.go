package harness

// Native, coverage-guided fuzz targets (thorough tier only; `go test -fuzz`).
// Each target carries its oracle inside: the rapid properties of the library stages are
// re-used through rapid.MakeFuzz (the fuzzer's bytes drive the same generators, coverage
// feedback chooses them), and one byte-level target feeds arbitrary bytes to the log reader.
// A crasher is saved by the toolchain under testdata/fuzz/<target>/ and is the replay file.

import (
	"fmt"
	"strings"
	"testing"

	"pgregory.net/rapid"
)

func silentEv() *Ev {
	return &Ev{Classes: map[string]int64{}, Excluded: map[string]int64{}, hashes: map[uint64]struct{}{}}
}

// FuzzC14Sentinel: whatever bytes come first, a well-formed record after them is reported,
// once and last; nothing is reported that the input does not hold; no crash.
func FuzzC14Sentinel(f *testing.F) {
	const sentinel = `type=AVC msg=audit(1700000000.100:7): apparmor="DENIED" operation="open" profile="sentinel" name="/opt/sentinel" pid=4242 comm="tok999q" requested_mask="r" denied_mask="r" fsuid=0 ouid=0`
	for _, s := range []string{"", "garbage", `apparmor="DEN`, `type=AVC msg=audit(1.1:1): apparmor="ALLOWED" operation="open" profile="x" name="/a b" pid=1 comm="y"`,
		`"`, "\x00\x01\xff", `{"MESSAGE": "apparmor`, strings.Repeat("x", 70000), `apparmor="STATUS" operation="profile_load" profile="unconfined" name="foo" pid=1`,
		`type=AVC msg=audit(1.1:1): apparmor="DENIED" operation="open" profile="x" name=2F6120622F pid=1 comm=22`} {
		f.Add([]byte(s))
	}
	f.Fuzz(func(t *testing.T, data []byte) {
		text := string(data)
		if strings.Contains(text, "tok999q") || strings.Contains(text, "sentinel") {
			return // the input holds the sentinel itself: the repeat rule applies
		}
		got, err := safeLogsNew(text+"\n"+sentinel+"\n", "")
		if err != nil {
			t.Fatalf("%v", err)
		}
		if len(got) == 0 {
			t.Fatalf("the record after %d bytes of other input is not reported", len(data))
		}
		last := got[len(got)-1]
		if last["comm"] != "tok999q" || last["profile"] != "sentinel" || last["name"] != "/opt/sentinel" {
			t.Fatalf("the last event is not the last record of the input: %v", last)
		}
		n := 0
		for _, g := range got {
			if g["comm"] == "tok999q" {
				n++
			}
		}
		if n != 1 {
			t.Fatalf("the last record is reported %d times", n)
		}
		// nothing invented: at most one event per input line that names an AppArmor state
		lines := 0
		for _, l := range strings.Split(text, "\n") {
			if strings.Contains(l, `apparmor="DENIED"`) || strings.Contains(l, `apparmor="ALLOWED"`) || strings.Contains(l, `apparmor="AUDIT"`) {
				lines++
			}
		}
		if len(got)-1 > lines {
			t.Fatalf("%d events besides the last record, but only %d lines of the input name an AppArmor state", len(got)-1, lines)
		}
	})
}

// seedBitstreams gives the rapid-bridged targets a starting corpus: rapid reads its choices as
// 64-bit words from the fuzzer's bytes, so a buffer of pseudo-random words is one complete
// generated case; the fuzzer then mutates single choices under coverage feedback instead of
// having to discover a complete choice sequence from the empty input.
func seedBitstreams(f *testing.F) {
	for i := uint64(1); i <= 48; i++ {
		buf := make([]byte, 8192)
		x := i * 0x9E3779B97F4A7C15
		for j := 0; j+8 <= len(buf); j += 8 {
			x += 0x9E3779B97F4A7C15
			z := x
			z = (z ^ (z >> 30)) * 0xBF58476D1CE4E5B9
			z = (z ^ (z >> 27)) * 0x94D049BB133111EB
			z ^= z >> 31
			for k := 0; k < 8; k++ {
				buf[j+k] = byte(z >> (8 * k))
			}
		}
		f.Add(buf)
	}
}

func FuzzC15Fields(f *testing.F) {
	seedBitstreams(f)
	f.Fuzz(rapid.MakeFuzz(func(t *rapid.T) {
		c := genC15Case(t)
		if c15Excluded(c) != "" {
			return
		}
		if err := c15Oracle(c); err != nil {
			t.Fatalf("%v", err)
		}
	}))
}

func FuzzC09Text(f *testing.F) {
	seedBitstreams(f)
	f.Fuzz(rapid.MakeFuzz(func(t *rapid.T) {
		r := genC09Rule(t)
		text := surfacePrint(t, r)
		if _, err := c09TextOracle(C09Text{Text: text}); err != nil {
			t.Fatalf("%v", err)
		}
	}))
}

func FuzzC10Merge(f *testing.F) {
	ev := silentEv()
	seedBitstreams(f)
	f.Fuzz(rapid.MakeFuzz(func(t *rapid.T) {
		c := C10Case{L: genC10List(t, ev)}
		if len(c.L) < 2 {
			return
		}
		if _, err := c10Oracle(c); err != nil {
			t.Fatalf("%v", err)
		}
	}))
}

func FuzzC11Triples(f *testing.F) {
	seedBitstreams(f)
	f.Fuzz(rapid.MakeFuzz(func(t *rapid.T) {
		c := C11Tuple{R: genC11SameKind(t, 3)}
		if err := c11TripleOracle(c); err != nil {
			t.Fatalf("%v", err)
		}
		if err := c11PairOracle(C11Tuple{R: c.R[:2]}); err != nil {
			t.Fatalf("%v", err)
		}
	}))
}

func FuzzC13Resolve(f *testing.F) {
	seedBitstreams(f)
	f.Fuzz(rapid.MakeFuzz(func(t *rapid.T) {
		c := genC13Case(t)
		if err := c13Oracle(c, false); err != nil && err != errInconclusive {
			t.Fatalf("%v", fmt.Errorf("%w", err))
		}
	}))
}
