package harness

// C12 — what the library prints means the same to the real AppArmor parser.

import (
	"encoding/json"
	"fmt"
	"os"
	"sort"
	"strings"
	"testing"

	"github.com/roddhjav/apparmor.d/pkg/aa"
	"pgregory.net/rapid"
)

func q(s string) string {
	if s == "" {
		return ""
	}
	if strings.HasPrefix(s, `"`) {
		return s
	}
	return `"` + s + `"`
}

func plist(l []string) string { return "(" + strings.Join(l, ", ") + ")" }

// canonicalPrint is the independent printer: the same field values in the most
// explicit spelling of apparmor.d(5) - every list parenthesised and comma
// separated, every value quoted, qualifiers in grammar order.
func canonicalPrint(r RS) string {
	var b []string
	if r.Bool("Audit") {
		b = append(b, "audit")
	}
	if at := r.Str("AccessType"); at != "" {
		b = append(b, at)
	}
	add := func(s ...string) { b = append(b, s...) }
	kv := func(k, v string) {
		if v != "" {
			add(k + "=" + q(v))
		}
	}
	switch r.Kind {
	case "file":
		if r.Bool("Owner") {
			add("owner")
		}
		add("file", q(r.Str("Path")), strings.Join(r.List("Access"), ""))
		if r.Str("Target") != "" {
			add("->", q(r.Str("Target")))
		}
	case "link":
		if r.Bool("Owner") {
			add("owner")
		}
		add("link")
		if r.Bool("Subset") {
			add("subset")
		}
		add(q(r.Str("Path")), "->", q(r.Str("Target")))
	case "capability":
		add("capability")
		add(r.List("Names")...)
	case "network":
		add("network")
		for _, k := range []string{"Domain", "Type", "Protocol"} {
			if r.Str(k) != "" {
				add(r.Str(k))
			}
		}
	case "mount", "umount", "remount":
		add(r.Kind)
		if r.Str("FsType") != "" {
			add("fstype=(" + r.Str("FsType") + ")")
		}
		if l := r.List("Options"); len(l) > 0 {
			add("options=" + plist(l))
		}
		if r.Str("Source") != "" {
			add(q(r.Str("Source")))
		}
		if r.Str("MountPoint") != "" {
			if r.Kind == "mount" {
				add("->")
			}
			add(q(r.Str("MountPoint")))
		}
	case "pivot_root":
		add("pivot_root")
		kv("oldroot", r.Str("OldRoot"))
		if r.Str("NewRoot") != "" {
			add(q(r.Str("NewRoot")))
		}
		if r.Str("TargetProfile") != "" {
			add("->", q(r.Str("TargetProfile")))
		}
	case "change_profile":
		add("change_profile")
		if r.Str("ExecMode") != "" {
			add(r.Str("ExecMode"))
		}
		if r.Str("Exec") != "" {
			add(q(r.Str("Exec")))
		}
		if r.Str("ProfileName") != "" {
			add("->", q(r.Str("ProfileName")))
		}
	case "signal":
		add("signal")
		if l := r.List("Access"); len(l) > 0 {
			add(plist(l))
		}
		if l := r.List("Set"); len(l) > 0 {
			add("set=" + plist(l))
		}
		kv("peer", r.Str("Peer"))
	case "ptrace":
		add("ptrace")
		if l := r.List("Access"); len(l) > 0 {
			add(plist(l))
		}
		kv("peer", r.Str("Peer"))
	case "unix":
		add("unix")
		if l := r.List("Access"); len(l) > 0 {
			add(plist(l))
		}
		if r.Str("Type") != "" {
			add("type=" + r.Str("Type"))
		}
		kv("protocol", r.Str("Protocol"))
		kv("addr", r.Str("Address"))
		kv("label", r.Str("Label"))
		var peer []string
		if r.Str("PeerLabel") != "" {
			peer = append(peer, "label="+q(r.Str("PeerLabel")))
		}
		if r.Str("PeerAddr") != "" {
			peer = append(peer, "addr="+q(r.Str("PeerAddr")))
		}
		if len(peer) > 0 {
			add("peer=(" + strings.Join(peer, ", ") + ")")
		}
	case "dbus":
		add("dbus")
		if l := r.List("Access"); len(l) > 0 {
			add(plist(l))
		}
		if r.Str("Bus") != "" {
			add("bus=" + r.Str("Bus"))
		}
		kv("name", r.Str("Name"))
		kv("path", r.Str("Path"))
		kv("interface", r.Str("Interface"))
		kv("member", r.Str("Member"))
		var peer []string
		if r.Str("PeerName") != "" {
			peer = append(peer, "name="+q(r.Str("PeerName")))
		}
		if r.Str("PeerLabel") != "" {
			peer = append(peer, "label="+q(r.Str("PeerLabel")))
		}
		if len(peer) > 0 {
			add("peer=(" + strings.Join(peer, ", ") + ")")
		}
	case "rlimit":
		add("set", "rlimit", r.Str("Key"), r.Str("Op"), r.Str("Value"))
	}
	return "  " + strings.Join(b, " ") + ","
}

func stubOf(body string) string {
	return "abi <abi/3.0>,\ninclude <tunables/global>\nprofile s {\n" + body + "\n}\n"
}

// c12Compare: is the library's text accepted, and does it compile to the same
// policy as the canonical text? Returns (inconclusive, discarded, error).
func c12Compare(libText, canonText string) (bool, bool, error) {
	ov, err := shippedTunablesOverlay()
	if err != nil {
		return false, false, fmt.Errorf("INFRA: %v", err)
	}
	ref := Ref{Base: ov, Features: true}
	want, err := ref.CompileOne(stubOf(canonText))
	if err == ErrRefTimeout {
		return true, false, nil
	}
	if err != nil {
		return false, true, nil // the values are not valid for AppArmor 3: outside the domain
	}
	got, err := ref.CompileOne(stubOf(libText))
	if err == ErrRefTimeout {
		return true, false, nil
	}
	if err != nil {
		return false, false, fmt.Errorf("the library's text is rejected by the reference parser although the same fields are accepted in canonical spelling: %v\n--- library text\n%s\n--- canonical text\n%s", firstLine(err), libText, canonText)
	}
	if w, ok := EquivalentProfiles(want, got); !ok {
		return false, false, fmt.Errorf("the reference parser reads something else from the library's text than the fields state: %s\n--- library text\n%s\n--- canonical text of the fields\n%s", w, libText, canonText)
	}
	return false, false, nil
}

// c12Vocab: values the reference parser can judge: real tunables, no dangling variables.
var c12Vocab = Vocab{
	Paths: []string{"/etc/foo", "/etc/Foo", "@{HOME}/.config/x", "@{bin}/foo", "@{lib}/foo/**", `"/opt/a b/c"`, "/usr/share/{a,b}/", "/proc/@{pid}/stat",
		"@{run}/user/@{uid}/x", "/dev/shm/#@{int}", "/a[0-9]*", "/**", "/tmp/a,b", "/var/lib/x/", "@{sys}/devices/**"},
	Names:   []string{"foo", "foo//bar", "@{profile_name}", "unconfined", "foo-bar.baz", `"foo bar"`, "/usr/bin/foo", "gnome-*"},
	Addrs:   []string{"none", "@/tmp/a", `"@/tmp/.X11-unix/X0"`, "@/tmp/dbus-*", `"@/tmp/a b"`},
	FsTypes: []string{"tmpfs", "proc", "ext4", "fuse.*", "overlay"},
	// a value with a comma is stored quoted (as the directives do): inside peer=( ) a bare comma separates conditions
	DbusN:   []string{"org.a.B", "org.freedesktop.DBus", `"org.a.B{,.*}"`, `"{:1.@{int},org.a.B}"`, ":1.42", "org.a.*"},
	DbusP:   []string{"/org/a/B", "/org/a/B{,/**}", "/", `"/org/a b"`},
	Members: []string{"Get", `"{Get,Set}"`, "Introspect", "Get*"},
}

type C12Case struct {
	L []RS `json:"rules"`
}

func dbusShapeOK(r RS) bool {
	if r.Kind != "dbus" {
		return true
	}
	acc := r.List("Access")
	bind := len(acc) == 1 && acc[0] == "bind"
	if bind {
		for _, k := range []string{"Path", "Interface", "Member", "PeerName", "PeerLabel"} {
			if r.Str(k) != "" {
				return false
			}
		}
		return true
	}
	for _, a := range acc {
		if a == "bind" {
			return false
		}
	}
	return r.Str("Name") == ""
}

func genC12Rule(t *rapid.T) RS { return genC12RuleOfKind(t, pick(t, "kind", abi3Kinds)) }

func genC12RuleOfKind(t *rapid.T, kind string) RS {
	r := GenRule(t, kind, GenOpt{V: c12Vocab, Comments: chance(t, "withcomment", 4)})
	switch kind {
	case "unix":
		delete(r.F, "Label") // a local label is rejected by the reference ("only valid in the peer expression")
	case "file":
		// a target is only valid on px / cx style transitions
		acc := r.List("Access")
		if r.Str("Target") != "" && len(acc) > 0 {
			last := strings.ToLower(acc[len(acc)-1])
			if !strings.Contains(last, "p") && !strings.Contains(last, "c") {
				delete(r.F, "Target")
			}
		}
	}
	return r
}

func safePrintRule(r aa.Rule) (s string, err error) {
	defer func() {
		if p := recover(); p != nil {
			err = fmt.Errorf("String panicked: %v", p)
		}
	}()
	aa.IndentationLevel = 1
	defer func() { aa.IndentationLevel = 0 }()
	return aa.Rules{r}.String(), nil
}

func c12RuleOracle(c C12Case) (inconclusive, discarded bool, err error) {
	r := c.L[0]
	rule := r.ToRule()
	if verr := rule.Validate(); verr != nil {
		return false, true, nil
	}
	text, err := safePrintRule(rule)
	if err != nil {
		return false, false, err
	}
	return c12Compare(strings.TrimRight(text, "\n"), canonicalPrint(r))
}

func c12BlockOracle(c C12Case) (inconclusive, discarded bool, err error) {
	// two limits on one resource: the last one in the text wins (order-dependent, contradictory)
	res := map[string]bool{}
	for _, r := range c.L {
		if r.Kind == "rlimit" {
			key := r.Str("Key")
			if key == "ofile" {
				key = "nofile"
			}
			if res[key] {
				return false, true, nil
			}
			res[key] = true
		}
	}
	rules := rsToRules(c.L)
	for _, r := range rules {
		if r.Validate() != nil {
			return false, true, nil
		}
	}
	formatted, ferr := safeMSF(rules)
	if ferr != nil {
		return false, false, ferr
	}
	// the canonical text states the fields of the rules that are printed, in the
	// same order (the reference compiler is order-sensitive for some overlapping
	// rules, e.g. pivot_root with targets; that merging keeps the meaning is C10)
	var canon []string
	for _, r := range rulesToRS(formatted) {
		canon = append(canon, canonicalPrint(r))
	}
	aa.IndentationLevel = 1
	text := formatted.String()
	aa.IndentationLevel = 0
	inc, disc, err := c12Compare(strings.TrimRight(text, "\n"), strings.Join(canon, "\n"))
	if inc || disc || err != nil {
		return inc, disc, err
	}
	// and the block as merged and formatted still states what the rules it was made from state
	// (not judged when several pivot_root rules overlap: there the reference is order-sensitive)
	pivots := 0
	var before []string
	for _, r := range c.L {
		if r.Kind == "pivot_root" {
			pivots++
		}
		before = append(before, canonicalPrint(r))
	}
	if pivots > 1 {
		return false, false, nil
	}
	inc, disc, err = c12Compare(strings.TrimRight(text, "\n"), strings.Join(before, "\n"))
	if err != nil {
		err = fmt.Errorf("after Merge + Sort + Format: %v", err)
	}
	return inc, false, err
}

func TestC12_Rules(t *testing.T) {
	if err := haveBins(); err != nil {
		t.Fatalf("INFRA: %v", err)
	}
	ev := NewEv(t, "C12", "rules", "one rule struct of a kind expressible in AppArmor 3 (file, link, capability, network, mount/remount/umount, pivot_root, change_profile, signal, ptrace, unix, dbus, rlimit) with all field combinations, qualifiers, quoted values with spaces, variables of the shipped tunables, trailing comments; oracle: the library's text wrapped in a stub profile must be accepted by apparmor_parser and compile (-M abi/3.0) to the same policy - attachment, policydb and file automata, exec table - as an independent canonical printer's rendering of the same fields (every list parenthesised and comma separated, every value quoted). Cases whose canonical text the reference rejects are outside the domain (values not valid for AppArmor 3) and counted as 'discarded'. Non-trivial: a quoted value, >= 2 list members, a peer expression or a target; distinct by canonical text")
	rapid.Check(t, func(t *rapid.T) {
		c := C12Case{L: []RS{genC12Rule(t)}}
		inc, disc, err := c12RuleOracle(c)
		canon := canonicalPrint(c.L[0])
		key := ""
		if strings.Contains(canon, `"`) || strings.Contains(canon, ", ") || strings.Contains(canon, "peer=") || strings.Contains(canon, "->") {
			key = canon
		}
		cls := "judged"
		if disc {
			cls, key = "discarded", ""
		}
		if inc {
			ev.Inconclusive()
			cls = "inconclusive"
		}
		ev.Case(key, cls, "kind:"+c.L[0].Kind+":"+cls)
		ev.Sample(map[string]any{"canonical": canon})
		if err != nil {
			if strings.HasPrefix(err.Error(), "INFRA") {
				t.Fatalf("%v", err)
			}
			if Explore(c.L[0].Kind+": "+firstLine(err), err) {
				return
			}
			t.Fatalf("%s", ev.Fail(c, "", "%v", err))
		}
	})
	ExploreReport(t)
}

func TestC12_Blocks(t *testing.T) {
	if err := haveBins(); err != nil {
		t.Fatalf("INFRA: %v", err)
	}
	ev := NewEv(t, "C12", "blocks", "blocks of 2-10 such rules (near-duplicates forced, one exec transition per path) after Merge + Sort + Format (aligned, blank lines between groups); oracle: the printed block compiles to the same policy as the canonical rendering of the fields of the rules it prints, in the same order. Non-trivial: Merge changed the list or padding was inserted; distinct by printed block")
	rapid.Check(t, func(t *rapid.T) {
		n := rapid.IntRange(2, 10).Draw(t, "n")
		var l []RS
		execOf := map[string]bool{}
		for i := 0; i < n; i++ {
			r := genC12Rule(t)
			if len(l) > 0 && chance(t, "neardup", 2) {
				base := l[rapid.IntRange(0, len(l)-1).Draw(t, "dupof")].Clone()
				if base.Kind != r.Kind {
					r = genC12RuleOfKind(t, base.Kind) // a near-duplicate is of the same kind
				}
				if base.Kind == r.Kind {
					// a field of the fresh rule or of the earlier one: set to the fresh value, or
					// dropped when the fresh rule does not have it (a qualifier, an optional condition)
					km := map[string]bool{}
					for k := range r.F {
						km[k] = true
					}
					for k := range base.F {
						km[k] = true
					}
					var keys []string
					for k := range km {
						keys = append(keys, k)
					}
					sort.Strings(keys)
					change := func(label string) {
						k := keys[rapid.IntRange(0, len(keys)-1).Draw(t, label)]
						if v, ok := r.F[k]; ok {
							base.F[k] = v
						} else {
							delete(base.F, k)
						}
					}
					saved := base.Clone()
					if len(keys) > 0 {
						change("dupfield")
						if chance(t, "twofields", 2) {
							// rules that agree in everything but two fields (access and set of a
							// signal rule, say) must not be folded into one
							change("dupfield2")
						}
					}
					if !dbusShapeOK(base) {
						base = saved // a bind rule has a name and nothing else, the other rules have no name: fields do not mix
					}
					r = base
				}
			}
			if r.Kind == "rlimit" {
				// two limits on one resource: the last one in the text wins, the meaning
				// depends on the order of the rules (contradictory policy, like two exec
				// transitions for one path)
				key := r.Str("Key")
				if key == "ofile" {
					key = "nofile" // two names of one resource
				}
				if execOf["rlimit:"+key] {
					continue
				}
				execOf["rlimit:"+key] = true
			}
			if r.Kind == "file" {
				acc := r.List("Access")
				last := acc[len(acc)-1]
				if len(last) > 1 || last == "x" {
					if execOf[r.Str("Path")] {
						continue
					}
					execOf[r.Str("Path")] = true
				} else {
					delete(r.F, "Target")
				}
			}
			l = append(l, r)
		}
		if len(l) < 2 {
			ev.Case("", "short")
			return
		}
		c := C12Case{L: l}
		inc, disc, err := c12BlockOracle(c)
		cls := "judged"
		if disc {
			cls = "discarded"
		}
		if inc {
			ev.Inconclusive()
		}
		key := ""
		if !disc {
			key = canonList(l, false)
		}
		ev.Case(key, cls)
		ev.Sample(map[string]any{"rules": len(l)})
		if err != nil {
			if strings.HasPrefix(err.Error(), "INFRA") {
				t.Fatalf("%v", err)
			}
			if Explore("block: "+firstLine(err), err) {
				return
			}
			t.Fatalf("%s", ev.Fail(c, "", "%v", err))
		}
	})
	ExploreReport(t)
}

func TestC12_Replay(t *testing.T) {
	path := os.Getenv("VERIF_REPLAY")
	if path == "" {
		t.Skip("no VERIF_REPLAY")
	}
	var c C12Case
	rf, err := LoadReplay(path, &c)
	if err != nil {
		t.Fatal(err)
	}
	ev := NewEv(t, "C12", "replay", "replay of one saved case")
	ev.Case("replay")
	var oerr error
	switch rf.Sub {
	case "rules":
		_, _, oerr = c12RuleOracle(c)
	case "blocks":
		_, _, oerr = c12BlockOracle(c)
	case "logs":
		var lc C16Case
		json.Unmarshal(rf.Case, &lc)
		oerr = c12LogOracle(lc)
	}
	if oerr != nil {
		ev.Violate(json.RawMessage(rf.Case), "", "%v", oerr)
		t.Fatalf("%v", oerr)
	}
}
