package harness

// C03 — only/exclude directives keep exactly the rules meant for the build target.

import (
	"encoding/json"
	"fmt"
	"os"
	"path/filepath"
	"regexp"
	"strings"
	"sync"
	"testing"

	"github.com/roddhjav/apparmor.d/pkg/paths"
	"github.com/roddhjav/apparmor.d/pkg/prebuild"
	"github.com/roddhjav/apparmor.d/pkg/prebuild/directive"
	"pgregory.net/rapid"
)

// Target is one (distribution, ABI, version) build target.
type Target struct {
	Dist    string  `json:"dist"`
	ABI     int     `json:"abi"`
	Version float64 `json:"version"`
}

// family table written from docs/development/directives.md
var docFamily = map[string]string{"arch": "pacman", "debian": "apt", "ubuntu": "apt", "whonix": "apt", "opensuse": "zypper"}
var allDists = []string{"arch", "debian", "ubuntu", "opensuse", "whonix"}
var abiVersions = []Target{{ABI: 3, Version: 3.0}, {ABI: 4, Version: 4.0}, {ABI: 4, Version: 4.1}}

// c03Targets: the ABI and the version are separate options (--abi, --version): the filters abiN and
// apparmorX.Y must follow their own option also where the two disagree.
func c03Targets() []Target {
	var res []Target
	for _, d := range allDists {
		for _, av := range allAV {
			var v float64
			fmt.Sscanf(av.Ver, "%g", &v)
			res = append(res, Target{Dist: d, ABI: av.ABI, Version: v})
		}
	}
	return res
}

func allTargets() []Target {
	var res []Target
	for _, d := range allDists {
		for _, av := range abiVersions {
			res = append(res, Target{Dist: d, ABI: av.ABI, Version: av.Version})
		}
	}
	return res
}

func (t Target) words() map[string]bool {
	return map[string]bool{
		t.Dist:                                 true,
		docFamily[t.Dist]:                      true,
		fmt.Sprintf("abi%d", t.ABI):            true,
		fmt.Sprintf("apparmor%.1f", t.Version): true,
	}
}

func (t Target) String() string { return fmt.Sprintf("%s/abi%d/%.1f", t.Dist, t.ABI, t.Version) }

func setTarget(t Target) {
	prebuild.Distribution = t.Dist
	prebuild.Family = docFamily[t.Dist]
	prebuild.ABI = t.ABI
	prebuild.Version = t.Version
}

type C03Seg struct {
	Kind    string   `json:"kind"` // line | inline | para
	Text    string   `json:"text,omitempty"`
	Dir     string   `json:"dir,omitempty"`
	Filters []string `json:"filters,omitempty"`
	Pad     string   `json:"pad,omitempty"` // blanks before the marker (inline) or indentation (para)
	Lines   []string `json:"lines,omitempty"`
}

type C03Case struct {
	Segs   []C03Seg `json:"segs"`
	Target Target   `json:"target"`
	File   string   `json:"file,omitempty"`
}

func (c C03Case) Text() string {
	var b strings.Builder
	for _, s := range c.Segs {
		switch s.Kind {
		case "line":
			b.WriteString(s.Text + "\n")
		case "inline":
			b.WriteString(s.Text + s.Pad + "#aa:" + s.Dir + " " + strings.Join(s.Filters, " ") + "\n")
		case "para":
			b.WriteString(s.Pad + "#aa:" + s.Dir + " " + strings.Join(s.Filters, " ") + "\n")
			for _, l := range s.Lines {
				b.WriteString(l + "\n")
			}
			b.WriteString("\n")
		}
	}
	return b.String()
}

func (s C03Seg) keep(t Target) bool {
	w := t.words()
	hit := false
	for _, f := range s.Filters {
		if w[f] {
			hit = true
		}
	}
	if s.Dir == "only" {
		return hit
	}
	return !hit
}

// expected: the non-blank lines of the output, in order.
func (c C03Case) expected() []string {
	var res []string
	add := func(l string) {
		if strings.TrimSpace(l) != "" {
			res = append(res, l)
		}
	}
	for _, s := range c.Segs {
		switch s.Kind {
		case "line":
			add(s.Text)
		case "inline":
			if s.keep(c.Target) {
				add(s.Text)
			}
		case "para":
			if s.keep(c.Target) {
				for _, l := range s.Lines {
					add(l)
				}
			}
		}
	}
	return res
}

func nonBlank(text string) []string {
	var res []string
	for _, l := range strings.Split(text, "\n") {
		if strings.TrimSpace(l) != "" {
			res = append(res, l)
		}
	}
	return res
}

func safeDirectiveRun(file string, text string) (out string, err error) {
	defer func() {
		if p := recover(); p != nil {
			err = fmt.Errorf("directive.Run panicked: %v", p)
		}
	}()
	return directive.Run(paths.New(file), text)
}

func c03Oracle(c C03Case) error {
	setTarget(c.Target)
	text := c.Text()
	file := c.File
	if file == "" {
		file = "/verif-nonexistent/apparmor.d/foo"
	}
	out, err := safeDirectiveRun(file, text)
	if err != nil {
		return fmt.Errorf("directive.Run failed on %s: %v\n--- text\n%s", c.Target, err, text)
	}
	if strings.Contains(out, "#aa:only") || strings.Contains(out, "#aa:exclude") {
		return fmt.Errorf("a directive marker survives for target %s\n--- input\n%s--- output\n%s", c.Target, text, out)
	}
	want, got := c.expected(), nonBlank(out)
	if strings.Join(want, "\n") != strings.Join(got, "\n") {
		// first difference
		i := 0
		for i < len(want) && i < len(got) && want[i] == got[i] {
			i++
		}
		w, g := "<end>", "<end>"
		if i < len(want) {
			w = want[i]
		}
		if i < len(got) {
			g = got[i]
		}
		return fmt.Errorf("wrong lines for target %s: at non-blank line %d want %q, got %q\n--- input\n%s--- output\n%s", c.Target, i+1, w, g, text, out)
	}
	return nil
}

var c03Filters = []string{"arch", "debian", "ubuntu", "opensuse", "whonix", "apt", "pacman", "zypper", "abi3", "abi4",
	"apparmor3.0", "apparmor4.0", "apparmor4.1", "fedora", "abi5", "apparmor4", "apparmor4.10", "rpm"}

var c03Rules = []string{"@{bin}/foo rPx,", "/etc/foo r,", "owner @{HOME}/.cache/x rw,", "capability sys_admin,", "network inet stream,",
	"@{run}/zypp.pid rwk,", "include <abstractions/common/apt>", "@{lib}/apt/methods/* rPx,", "/{,**} rwl,", "@{multiarch}+=*-suse-linux*",
	"@{bin}/dpkg rPx -> child-dpkg,", "# a comment", "# only on apt", "/var/log/a.b r,", "/usr/share/x/{,**} r,", "mount options=(rw rbind) /a/ -> /b/,"}

func genC03Case(t *rapid.T) C03Case {
	var c C03Case
	c.Target = c03Targets()[rapid.IntRange(0, 29).Draw(t, "target")]
	n := rapid.IntRange(1, 12).Draw(t, "nsegs")
	// a small pool of directives so that identical directives repeat within a file
	type dirv struct {
		dir     string
		filters []string
	}
	var pool []dirv
	for i := 0; i < 3; i++ {
		k := rapid.IntRange(1, 3).Draw(t, "nfilters")
		var fl []string
		for j := 0; j < k; j++ {
			fl = append(fl, pick(t, "filter", c03Filters))
		}
		pool = append(pool, dirv{pick(t, "dir", []string{"only", "only", "exclude"}), fl})
	}
	indents := []string{"", "  ", "    "}
	wrap := pick(t, "wrap", []string{"profile", "subprofile", "abstraction", "tunable"})
	base := "  "
	switch wrap {
	case "profile":
		c.Segs = append(c.Segs, C03Seg{Kind: "line", Text: "abi <abi/4.0>,"}, C03Seg{Kind: "line", Text: "profile foo @{exec_path} {"})
	case "subprofile":
		c.Segs = append(c.Segs, C03Seg{Kind: "line", Text: "profile foo @{exec_path} {"}, C03Seg{Kind: "line", Text: "  profile bar {"})
		base = "    "
	case "abstraction", "tunable":
		base = pick(t, "absindent", []string{"", "  "})
	}
	for i := 0; i < n; i++ {
		d := pool[rapid.IntRange(0, len(pool)-1).Draw(t, "dirv")]
		switch pick(t, "segkind", []string{"line", "line", "inline", "inline", "para", "blank"}) {
		case "line":
			c.Segs = append(c.Segs, C03Seg{Kind: "line", Text: base + pick(t, "rule", c03Rules)})
		case "blank":
			c.Segs = append(c.Segs, C03Seg{Kind: "line", Text: ""})
		case "inline":
			c.Segs = append(c.Segs, C03Seg{Kind: "inline", Text: base + pick(t, "rule", c03Rules),
				Pad: strings.Repeat(" ", rapid.IntRange(1, 3).Draw(t, "pad")), Dir: d.dir, Filters: d.filters})
		case "para":
			if !chance(t, "noblankbefore", 4) {
				c.Segs = append(c.Segs, C03Seg{Kind: "line", Text: ""})
			}
			ind := base
			if chance(t, "otherindent", 4) {
				ind = pick(t, "indent", indents)
			}
			k := rapid.IntRange(1, 4).Draw(t, "nlines")
			var lines []string
			for j := 0; j < k; j++ {
				lines = append(lines, base+pick(t, "rule", c03Rules))
			}
			c.Segs = append(c.Segs, C03Seg{Kind: "para", Pad: ind, Dir: d.dir, Filters: d.filters, Lines: lines})
		}
	}
	switch wrap {
	case "profile":
		c.Segs = append(c.Segs, C03Seg{Kind: "line", Text: "  include if exists <local/foo>"}, C03Seg{Kind: "line", Text: "}"})
	case "subprofile":
		c.Segs = append(c.Segs, C03Seg{Kind: "line", Text: "  }"}, C03Seg{Kind: "line", Text: "}"})
	}
	return c
}

func c03Nontrivial(c C03Case) string {
	keeps, removes, dirs := 0, 0, 0
	for _, s := range c.Segs {
		if s.Kind == "line" {
			continue
		}
		dirs++
		if s.keep(c.Target) {
			keeps++
		} else {
			removes++
		}
	}
	if (keeps > 0 && removes > 0) || dirs >= 2 {
		return c.Target.String() + "\n" + c.Text()
	}
	return ""
}

func TestC03_Generated(t *testing.T) {
	ev := NewEv(t, "C03", "generated", "profile / sub-profile / abstraction / tunable texts built from a segment model: unguarded lines, inline guarded rules (1-3 blanks before the marker), guarded paragraphs (indentation 0/2/4, 1-4 lines, blank-line terminated), a pool of 3 directives per file so that identical directives repeat, filters from distributions, families, abiN, apparmorX.Y and non-matching words, one of the 15 (distribution, ABI, version) targets; oracle: independent line model (keep(only) <=> a filter names the target's distribution, documented family, ABI or version; exclude is the negation): the non-blank output lines of directive.Run must equal the expected sequence and no marker may survive. Non-trivial: a kept and a removed directive in one file, or >= 2 directives; distinct by target + text")
	rapid.Check(t, func(t *rapid.T) {
		c := genC03Case(t)
		ev.Case(c03Nontrivial(c), "target:"+c.Target.String())
		ev.Sample(map[string]any{"target": c.Target.String(), "text": c.Text()})
		if err := c03Oracle(c); err != nil {
			if Explore(firstLine(err), err) {
				return
			}
			t.Fatalf("%s", ev.Fail(c, "", "%v", err))
		}
	})
	ExploreReport(t)
}

// ---------------------------------------------------------------------------
// (b) every shipped use x every target (exhaustive)

var reGuard = regexp.MustCompile(`^(.*?)(\s*)#aa:(only|exclude) (.*)$`)
var reOtherDirective = regexp.MustCompile(`#aa:(dbus|exec|stack)`)

// segmentShipped splits a shipped file into the segment model with an
// independent line scanner.
func segmentShipped(text string) []C03Seg {
	text = reOtherDirective.ReplaceAllString(text, "#zz:$1") // other directive kinds neutralised
	lines := strings.Split(strings.TrimSuffix(text, "\n"), "\n")
	var segs []C03Seg
	for i := 0; i < len(lines); i++ {
		l := lines[i]
		m := reGuard.FindStringSubmatch(l)
		if m == nil {
			segs = append(segs, C03Seg{Kind: "line", Text: l})
			continue
		}
		filters := strings.Fields(m[4])
		if strings.TrimSpace(m[1]) != "" {
			segs = append(segs, C03Seg{Kind: "inline", Text: m[1], Pad: m[2], Dir: m[3], Filters: filters})
			continue
		}
		s := C03Seg{Kind: "para", Pad: m[1] + m[2], Dir: m[3], Filters: filters}
		j := i + 1
		for ; j < len(lines) && strings.TrimSpace(lines[j]) != ""; j++ {
			s.Lines = append(s.Lines, lines[j])
		}
		// the terminating blank line is rendered by Text(); skip it in the source
		if j < len(lines) {
			i = j
		} else {
			i = j - 1
		}
		segs = append(segs, s)
	}
	return segs
}

func repoRoot() string {
	if r := os.Getenv("VERIF_REPO"); r != "" {
		return r
	}
	return "/repo"
}

func TestC03_Shipped(t *testing.T) {
	ev := NewEv(t, "C03", "shipped", "every shipped file carrying an only/exclude directive x all 30 targets (5 distributions x 6 ABI/version pairs incl. the cross pairs), enumerated completely (other directive kinds neutralised); same oracle as the generated part. Non-trivial: every (file, target) pair where a directive is removed; distinct by file + target")
	ev.Exhaustive = true
	root := filepath.Join(repoRoot(), "apparmor.d")
	nfiles, nuses := 0, 0
	err := filepath.Walk(root, func(path string, info os.FileInfo, err error) error {
		if err != nil || info.IsDir() {
			return err
		}
		data, err := os.ReadFile(path)
		if err != nil {
			return err
		}
		text := string(data)
		if !strings.Contains(text, "#aa:only") && !strings.Contains(text, "#aa:exclude") {
			return nil
		}
		nfiles++
		segs := segmentShipped(text)
		for _, s := range segs {
			if s.Kind != "line" {
				nuses++
			}
		}
		rel, _ := filepath.Rel(repoRoot(), path)
		for _, tg := range c03Targets() {
			c := C03Case{Segs: segs, Target: tg, File: "/verif-nonexistent/" + rel}
			key := ""
			for _, s := range segs {
				if s.Kind != "line" && !s.keep(tg) {
					key = rel + "@" + tg.String()
				}
			}
			ev.Case(key, "target:"+tg.String())
			if err := c03Oracle(c); err != nil {
				ev.Violate(map[string]any{"file": rel, "target": tg}, "", "%s: %v", rel, err)
				t.Errorf("%s: %v", rel, firstLine(err))
			}
		}
		ev.Sample(map[string]any{"file": rel, "directives": nuses})
		return nil
	})
	if err != nil {
		t.Fatalf("INFRA: walking %s: %v", root, err)
	}
	ev.Note("%d shipped files, %d only/exclude uses, 30 targets each", nfiles, nuses)
	if nfiles == 0 {
		t.Fatalf("INFRA: no shipped file with only/exclude directives found under %s", root)
	}
}

// ---------------------------------------------------------------------------
// real builds: the target the filters are judged against is derived by the program itself
// (DISTRIBUTION -> family table, --abi, --version); in-process stages set those variables
// directly and cannot see a wrong derivation.

// c03Canon: what the other builders of a normal build do to a rule line (hotfix lower-cases
// transition modes, abi3 comments out userns / mqueue and rewrites the abi), removed on both sides.
func c03Canon(l string) string {
	l = strings.TrimSpace(l)
	if i := strings.Index(l, "#aa:"); i > 0 {
		l = strings.TrimSpace(l[:i])
	}
	l = strings.TrimPrefix(l, "# ")
	l = strings.ReplaceAll(l, "abi/4.0", "abi/3.0")
	return strings.ToLower(l)
}

func builtNameOf(rel string, c Config, overwritten map[string]bool) string {
	parts := strings.Split(rel, "/")
	out := rel
	if isProfileDir(rel) {
		out = parts[len(parts)-1]
		if c.ABI == 4 && overwritten[out] {
			out += ".apparmor.d"
		}
	}
	return out
}

func TestC03_Builds(t *testing.T) {
	if err := haveBins(); err != nil {
		t.Fatalf("INFRA: %v", err)
	}
	ev := NewEv(t, "C03", "builds", "real builds (prebuild binary, mode none, not full) of the shipped tree: 7 configurations in quick (every distribution, the three ABI/version pairs main.go selects and three cross pairs), all 30 in thorough; for every shipped file with an only/exclude directive that reaches the output, every guarded rule line whose text is unique in its file must be present when the program's own target (DISTRIBUTION -> family, --abi, --version) matches the filter list as documented, and absent otherwise; no marker survives. Non-trivial: a (configuration, file, guarded line) where the line is dropped; distinct by configuration + file + line")
	var cfgs []Config
	if isThorough() {
		for _, d := range allDists {
			for _, av := range allAV {
				cfgs = append(cfgs, Config{Dist: d, ABI: av.ABI, Version: av.Ver})
			}
		}
		ev.Exhaustive = true
	} else {
		cfgs = []Config{{Dist: "arch", ABI: 4, Version: "4.1"}, {Dist: "debian", ABI: 3, Version: "3.0"}, {Dist: "ubuntu", ABI: 4, Version: "4.0"},
			{Dist: "opensuse", ABI: 3, Version: "4.1"}, {Dist: "whonix", ABI: 3, Version: "3.0"}, {Dist: "whonix", ABI: 4, Version: "3.0"}, {Dist: "ubuntu", ABI: 3, Version: "4.0"}}
	}
	files, overwritten := c03SourceFiles()
	if len(files) == 0 {
		t.Fatalf("INFRA: no shipped file with only/exclude directives under %s", repoRoot())
	}
	var mu sync.Mutex
	parallel(len(cfgs), 8, func(i int) {
		c := cfgs[i]
		b, err := BuildShipped(c, false)
		defer b.Clean()
		if err != nil {
			mu.Lock()
			t.Errorf("INFRA: %v", err)
			mu.Unlock()
			return
		}
		mu.Lock()
		defer mu.Unlock()
		for _, p := range c03JudgeBuild(b, c, files, overwritten, ev) {
			ev.Violate(p, "", "%s", p["message"])
			t.Errorf("%s", p["message"])
		}
		ev.Sample(map[string]any{"config": c.String(), "files_with_filters": len(files)})
	})
}

type c03SrcFile struct {
	rel  string
	segs []C03Seg
	text string
}

func c03SourceFiles() ([]c03SrcFile, map[string]bool) {
	overwritten := map[string]bool{}
	for _, n := range readManifestLines(filepath.Join(repoRoot(), "dists", "overwrite")) {
		overwritten[n] = true
	}
	var files []c03SrcFile
	root := filepath.Join(repoRoot(), "apparmor.d")
	filepath.Walk(root, func(path string, info os.FileInfo, err error) error {
		if err != nil || info.IsDir() {
			return nil
		}
		text := readFile(path)
		if strings.Contains(text, "#aa:only") || strings.Contains(text, "#aa:exclude") {
			rel, _ := filepath.Rel(root, path)
			files = append(files, c03SrcFile{rel: rel, segs: segmentShipped(text), text: text})
		}
		return nil
	})
	return files, overwritten
}

// c03JudgeBuild compares the guarded lines of every source file with the built file of b.
func c03JudgeBuild(b *Build, c Config, files []c03SrcFile, overwritten map[string]bool, ev *Ev) []map[string]any {
	var problems []map[string]any
	add := func(file, line, msg string) {
		problems = append(problems, map[string]any{"config": c, "file": file, "line": line, "message": msg})
	}
	tg := c.Target()
	for _, f := range files {
		outPath := filepath.Join(b.Apparmord(), builtNameOf(f.rel, c, overwritten))
		built := readFile(outPath)
		if built == "" {
			if ev != nil {
				ev.Case("", "file-not-in-this-build")
			}
			continue
		}
		if strings.Contains(built, "#aa:only") || strings.Contains(built, "#aa:exclude") {
			add(f.rel, "", fmt.Sprintf("%s: %s: an only/exclude marker survives in the built file", c, f.rel))
		}
		// canonical line counts of the source (uniqueness) and of the output (presence)
		srcCount := map[string]int{}
		for _, l := range strings.Split(f.text, "\n") {
			srcCount[c03Canon(l)]++
		}
		have := map[string]bool{}
		for _, l := range strings.Split(built, "\n") {
			have[c03Canon(l)] = true
		}
		stacks := strings.Contains(f.text, "#aa:stack")
		for _, s := range f.segs {
			if s.Kind == "line" {
				continue
			}
			lines := s.Lines
			if s.Kind == "inline" {
				lines = []string{s.Text}
			}
			keep := s.keep(tg)
			for _, l := range lines {
				cl := c03Canon(l)
				if cl == "" || strings.HasPrefix(cl, "#") || srcCount[cl] != 1 {
					continue // comments, directives of other kinds, lines that also occur unguarded
				}
				key := ""
				if !keep {
					key = c.String() + "|" + f.rel + "|" + cl
				}
				if ev != nil {
					ev.Case(key, "dist:"+c.Dist, fmt.Sprintf("av:%d/%s", c.ABI, c.Version), fmt.Sprintf("kept:%v", keep))
				}
				switch {
				case keep && !have[cl]:
					add(f.rel, l, fmt.Sprintf("%s: %s: the rule %q is guarded by '%s %s', which selects this target, but it is missing from the built file", c, f.rel, strings.TrimSpace(l), s.Dir, strings.Join(s.Filters, " ")))
				case !keep && have[cl] && !stacks:
					add(f.rel, l, fmt.Sprintf("%s: %s: the rule %q is guarded by '%s %s', which does not select this target, but it is in the built file", c, f.rel, strings.TrimSpace(l), s.Dir, strings.Join(s.Filters, " ")))
				}
			}
		}
	}
	return problems
}

func TestC03_Replay(t *testing.T) {
	path := os.Getenv("VERIF_REPLAY")
	if path == "" {
		t.Skip("no VERIF_REPLAY")
	}
	rf, err := LoadReplay(path, nil)
	if err != nil {
		t.Fatal(err)
	}
	ev := NewEv(t, "C03", "replay", "replay of one saved case")
	ev.Case("replay")
	var c C03Case
	if rf.Sub == "builds" {
		var ref struct {
			Config Config `json:"config"`
			File   string `json:"file"`
		}
		json.Unmarshal(rf.Case, &ref)
		b, err := BuildShipped(ref.Config, false)
		defer b.Clean()
		if err != nil {
			t.Fatalf("INFRA: %v", err)
		}
		files, overwritten := c03SourceFiles()
		for _, p := range c03JudgeBuild(b, ref.Config, files, overwritten, nil) {
			if p["file"] == ref.File {
				ev.Violate(json.RawMessage(rf.Case), "", "%s", p["message"])
				t.Errorf("%s", p["message"])
			}
		}
		return
	}
	if rf.Sub == "shipped" {
		var ref struct {
			File   string `json:"file"`
			Target Target `json:"target"`
		}
		json.Unmarshal(rf.Case, &ref)
		data, err := os.ReadFile(filepath.Join(repoRoot(), ref.File))
		if err != nil {
			t.Fatalf("INFRA: %v", err)
		}
		c = C03Case{Segs: segmentShipped(string(data)), Target: ref.Target, File: "/verif-nonexistent/" + ref.File}
	} else {
		json.Unmarshal(rf.Case, &c)
	}
	if oerr := c03Oracle(c); oerr != nil {
		ev.Violate(json.RawMessage(rf.Case), "", "%v", oerr)
		t.Fatalf("%v", oerr)
	}
}
