package harness

// C10 through the `aa --format` command (cmd/aa): it merges, sorts and formats every paragraph
// of a profile file in place. Whatever it does to the text, the file must keep its meaning
// (judged by the reference parser: both files compiled, every profile compared), also through a
// second run.

import (
	"fmt"
	"os"
	"os/exec"
	"path/filepath"
	"strings"
	"sync/atomic"
	"testing"

	"pgregory.net/rapid"
)

type C10File struct {
	Main []string `json:"main"` // paragraphs of the profile body: rule lines, "" separates paragraphs
	Sub  []string `json:"sub"`  // body of the sub-profile (may repeat rules of its parent)
}

var c10ToolLines = []string{
	"capability sys_admin,", "capability net_admin,", "capability sys_admin,", "network inet stream,", "network inet dgram,", "network netlink raw,",
	"/etc/foo r,", "/etc/foo w,", "/etc/foo rw,", "/etc/Foo r,", "owner /etc/foo r,", "deny /etc/foo w,", "audit /etc/foo r,", "@{bin}/ls rix,", "/usr/share/x/{,**} r,",
	"signal (receive) set=(term) peer=foo,", "signal (receive) set=(kill) peer=foo,", "signal (send) set=(term) peer=foo,", "ptrace (read) peer=foo,", "ptrace (readby) peer=foo,",
	"unix (send receive) type=stream,", "dbus send bus=session path=/org/x interface=org.x member=Get peer=(name=org.x),", "mount options=(rw rbind) /a/ -> /b/,", "mount options=(ro) /a/ -> /b/,",
	"umount /b/,", "include <abstractions/consoles>", "# a comment",
}

func (c C10File) Text() string {
	var b strings.Builder
	b.WriteString("# apparmor.d - test profile\n\nabi <abi/3.0>,\n\ninclude <tunables/global>\n\n@{exec_path} = @{bin}/foo\nprofile foo @{exec_path} {\n  include <abstractions/base>\n\n  @{exec_path} mr,\n\n")
	for _, l := range c.Main {
		if l == "" {
			b.WriteString("\n")
		} else {
			b.WriteString("  " + l + "\n")
		}
	}
	if len(c.Sub) > 0 {
		b.WriteString("\n  profile sub {\n    include <abstractions/base>\n\n")
		for _, l := range c.Sub {
			if l == "" {
				b.WriteString("\n")
			} else {
				b.WriteString("    " + l + "\n")
			}
		}
		b.WriteString("\n    include if exists <local/foo_sub>\n  }\n")
	}
	b.WriteString("\n  include if exists <local/foo>\n}\n")
	return b.String()
}

func genC10Lines(t *rapid.T, label string, min, max int) []string {
	n := rapid.IntRange(min, max).Draw(t, label+"n")
	var res []string
	for i := 0; i < n; i++ {
		if i > 0 && chance(t, label+"para", 4) && res[len(res)-1] != "" {
			res = append(res, "")
		}
		res = append(res, pick(t, label+"line", c10ToolLines))
	}
	return res
}

// squeeze drops layout: blank lines, indentation, runs of blanks.
func squeeze(text string) string {
	var res []string
	for _, l := range strings.Split(text, "\n") {
		if f := strings.Fields(l); len(f) > 0 {
			res = append(res, strings.Join(f, " "))
		}
	}
	return strings.Join(res, "\n")
}

var c10ToolSeq int64

func c10ToolOracle(c C10File) (inconclusive bool, err error) {
	bin := filepath.Join(os.Getenv("VERIF_BIN"), "aa")
	dir := filepath.Join(refScratch(), fmt.Sprintf("c10tool-%d-%d", os.Getpid(), atomic.AddInt64(&c10ToolSeq, 1)))
	if err := os.MkdirAll(dir, 0o755); err != nil {
		return false, fmt.Errorf("INFRA: %v", err)
	}
	defer os.RemoveAll(dir)
	file := filepath.Join(dir, "foo")
	orig := c.Text()
	if err := os.WriteFile(file, []byte(orig), 0o644); err != nil {
		return false, fmt.Errorf("INFRA: %v", err)
	}
	run := func() (string, error) {
		out, err := exec.Command(bin, "-f", file).CombinedOutput()
		if err != nil {
			return "", fmt.Errorf("aa -f fails: %v: %s", err, tail(stripANSI(string(out)), 400))
		}
		return readFile(file), nil
	}
	f1, err := run()
	if err != nil {
		return false, fmt.Errorf("%v\n--- file\n%s", err, orig)
	}
	f2, err := run()
	if err != nil {
		return false, fmt.Errorf("second run: %v\n--- file after the first run\n%s", err, f1)
	}
	ov, oerr := shippedTunablesOverlay()
	if oerr != nil {
		return false, fmt.Errorf("INFRA: %v", oerr)
	}
	ref := Ref{Base: ov, Features: true}
	compile := func(text string) ([]*CompiledProfile, error) {
		blob, err := ref.Compile(text)
		if err != nil {
			return nil, err
		}
		return ParseBlob(blob)
	}
	want, err := compile(orig)
	if err == ErrRefTimeout {
		return true, nil
	}
	if err != nil {
		return false, fmt.Errorf("HARNESS: the generated file does not load: %v\n%s", firstLine(err), orig)
	}
	got, err := compile(f1)
	if err == ErrRefTimeout {
		return true, nil
	}
	if err != nil {
		return false, fmt.Errorf("the formatted file does not load any more: %v\n--- original\n%s--- formatted\n%s", firstLine(err), orig, f1)
	}
	if len(want) != len(got) {
		return false, fmt.Errorf("the formatted file holds %d profiles, the original %d\n--- original\n%s--- formatted\n%s", len(got), len(want), orig, f1)
	}
	for i := range want {
		if w, ok := EquivalentProfiles(want[i], got[i]); !ok {
			return false, fmt.Errorf("formatting changed the meaning of profile %q: %s\n--- original\n%s--- formatted\n%s", want[i].Name, w, orig, f1)
		}
	}
	// a second run may still move text around (the command replaces paragraphs by their text and
	// does not reach every paragraph in one go), but it must not change the meaning either
	if f2 != f1 {
		again, err := compile(f2)
		if err == ErrRefTimeout {
			return true, nil
		}
		if err != nil {
			return false, fmt.Errorf("the file does not load any more after a second formatting: %v\n--- once\n%s--- twice\n%s", firstLine(err), f1, f2)
		}
		if len(again) != len(want) {
			return false, fmt.Errorf("after a second formatting the file holds %d profiles, the original %d\n--- once\n%s--- twice\n%s", len(again), len(want), f1, f2)
		}
		for i := range want {
			if w, ok := EquivalentProfiles(want[i], again[i]); !ok {
				return false, fmt.Errorf("a second formatting changed the meaning of profile %q: %s\n--- once\n%s--- twice\n%s", want[i].Name, w, f1, f2)
			}
		}
	}
	return false, nil
}

func TestC10_Tool(t *testing.T) {
	if _, err := os.Stat(filepath.Join(os.Getenv("VERIF_BIN"), "aa")); err != nil {
		t.Fatalf("INFRA: aa binary not built: %v", err)
	}
	ev := NewEv(t, "C10", "tool", "profile files (a profile with 2-10 rule lines in 1-4 paragraphs and, two times out of three, a sub-profile with 1-5 lines from the same pool, so that rules of the parent come again in the child) through the real `aa --format` command, which merges, sorts and formats every paragraph in place; oracle: both files are compiled by the reference parser and every profile must keep its meaning; and keep it through a second run. Non-trivial: a paragraph in which Merge has something to fold, or a sub-profile repeating a rule of its parent; distinct by file text")
	rapid.Check(t, func(t *rapid.T) {
		c := C10File{Main: genC10Lines(t, "main", 2, 10)}
		if !chance(t, "nosub", 3) {
			c.Sub = genC10Lines(t, "sub", 1, 5)
		}
		key := ""
		seen := map[string]bool{}
		for _, l := range c.Main {
			seen[l] = true
		}
		for _, l := range c.Sub {
			if l != "" && seen[l] {
				key = c.Text()
			}
		}
		if strings.Contains(c.Text(), "/etc/foo r,") && strings.Contains(c.Text(), "/etc/foo w,") {
			key = c.Text()
		}
		inc, err := c10ToolOracle(c)
		if inc {
			ev.Inconclusive()
		}
		ev.Case(key, fmt.Sprintf("sub:%v", len(c.Sub) > 0))
		ev.Sample(map[string]any{"file": c.Text()})
		if err != nil {
			if strings.HasPrefix(err.Error(), "INFRA") || strings.HasPrefix(err.Error(), "HARNESS") {
				t.Fatalf("INFRA: %v", err)
			}
			t.Fatalf("%s", ev.Fail(c, "", "%v", err))
		}
	})
}
