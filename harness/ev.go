// Package harness holds the property-based checks for roddhjav/apparmor.d.
//
// ev.go: counters, distinct non-trivial case hashing, samples, violations and
// replay files. Every test (one per sub-property) owns one *Ev and flushes it
// to $VERIF_EV_OUT/<sub>.json; the driver (/verif/check) merges the files of a
// run into /verif/evidence/<id>.json.
package harness

import (
	"bufio"
	"encoding/binary"
	"encoding/json"
	"errors"
	"fmt"
	"hash/fnv"
	"os"
	"path/filepath"
	"sort"
	"strings"
	"sync"
	"testing"
)

// errInconclusive: a case could not be decided (tool timeout); never a violation.
var errInconclusive = errors.New("inconclusive")

const maxSamples = 8
const maxHashes = 400000 // distinct_nontrivial is counted conservatively up to this cap per shard

type Violation struct {
	Key     string `json:"key"`
	Message string `json:"message"`
	Replay  string `json:"replay"`
}

type Ev struct {
	mu          sync.Mutex
	Property    string           `json:"property"`
	Sub         string           `json:"sub"`
	Evaluations int64            `json:"evaluations"`
	Nontrivial  int64            `json:"nontrivial_total"`
	Distinct    int              `json:"distinct_nontrivial"`
	Classes     map[string]int64 `json:"classes"`
	Samples     []any            `json:"samples"`
	Excluded    map[string]int64 `json:"excluded_known"`
	Inconcl     int64            `json:"inconclusive"`
	Exhaustive  bool             `json:"exhaustive"`
	Rule        string           `json:"rule"`
	Violations  []Violation      `json:"violations"`
	Known       []string         `json:"known_findings"`
	Assumptions []string         `json:"assumptions"`
	Notes       []string         `json:"notes"`
	HashFile    string           `json:"hash_file"`

	hashes   map[uint64]struct{}
	lastFail *failRec
	sampleN  int64
}

type failRec struct {
	Case any
	Msg  string
	Key  string
}

// ReplayFile is the on-disk form of a shrunk failing case.
type ReplayFile struct {
	Property string          `json:"property"`
	Sub      string          `json:"sub"`
	Message  string          `json:"message"`
	Case     json.RawMessage `json:"case"`
}

func NewEv(t testing.TB, property, sub, rule string) *Ev {
	e := &Ev{Property: property, Sub: sub, Rule: rule,
		Classes: map[string]int64{}, Excluded: map[string]int64{}, hashes: map[uint64]struct{}{}}
	t.Cleanup(func() { e.Flush(t) })
	return e
}

func hashOf(s string) uint64 {
	h := fnv.New64a()
	h.Write([]byte(s))
	return h.Sum64()
}

// Case counts one executed case. key is "" for a trivial case, otherwise a
// string identifying the case for distinctness. classes feed the histogram.
func (e *Ev) Case(key string, classes ...string) {
	e.mu.Lock()
	defer e.mu.Unlock()
	e.Evaluations++
	for _, c := range classes {
		e.Classes[c]++
	}
	if key != "" {
		e.Nontrivial++
		if len(e.hashes) < maxHashes {
			e.hashes[hashOf(key)] = struct{}{}
		}
	}
}

func (e *Ev) Class(classes ...string) {
	e.mu.Lock()
	defer e.mu.Unlock()
	for _, c := range classes {
		e.Classes[c]++
	}
}

// Sample keeps a few cases written out in full (spread over the run: the
// first few, then reservoir-free replacement at growing intervals so that the
// kept samples are deterministic for a seed).
func (e *Ev) Sample(v any) {
	e.mu.Lock()
	defer e.mu.Unlock()
	e.sampleN++
	if len(e.Samples) < maxSamples {
		e.Samples = append(e.Samples, v)
		return
	}
	// replace deterministically at powers of two so late cases are visible too
	n := e.sampleN
	if n&(n-1) == 0 {
		e.Samples[int(n%int64(maxSamples))] = v
	}
}

func (e *Ev) ExcludedKnown(key string) {
	e.mu.Lock()
	defer e.mu.Unlock()
	e.Excluded[key]++
}

func (e *Ev) Inconclusive() {
	e.mu.Lock()
	defer e.mu.Unlock()
	e.Inconcl++
}

func (e *Ev) Note(format string, a ...any) {
	e.mu.Lock()
	defer e.mu.Unlock()
	if len(e.Notes) < 50 {
		e.Notes = append(e.Notes, fmt.Sprintf(format, a...))
	}
}

func (e *Ev) Assume(s ...string) {
	e.mu.Lock()
	defer e.mu.Unlock()
	e.Assumptions = append(e.Assumptions, s...)
}

// KnownFinding records that a listed finding still reproduces.
func (e *Ev) KnownFinding(key, what string) {
	e.mu.Lock()
	defer e.mu.Unlock()
	e.Known = append(e.Known, key+" :: "+what)
}

// Fail remembers a failing case (the last call wins: rapid re-runs the
// shrunk case last, so the remembered case is the minimal one).
func (e *Ev) Fail(c any, key string, format string, a ...any) string {
	e.mu.Lock()
	defer e.mu.Unlock()
	msg := fmt.Sprintf(format, a...)
	e.lastFail = &failRec{Case: c, Msg: msg, Key: key}
	return msg
}

// Violate records a violation directly (enumerative checks): writes the replay
// file at once.
func (e *Ev) Violate(c any, key string, format string, a ...any) {
	msg := fmt.Sprintf(format, a...)
	e.mu.Lock()
	defer e.mu.Unlock()
	if len(e.Violations) >= 60 {
		if e.Violations[len(e.Violations)-1].Key != "more" {
			e.Violations = append(e.Violations, Violation{Key: "more", Message: "more violations not listed"})
		}
		return
	}
	path := e.writeReplay(c, msg, len(e.Violations))
	e.Violations = append(e.Violations, Violation{Key: key, Message: msg, Replay: path})
}

func replayDir() string {
	if d := os.Getenv("VERIF_REPLAY_OUT"); d != "" {
		return d
	}
	return "/verif/replays"
}

func (e *Ev) writeReplay(c any, msg string, n int) string {
	raw, err := json.MarshalIndent(c, "", " ")
	if err != nil {
		raw, _ = json.Marshal(fmt.Sprintf("%+v", c))
	}
	rf := ReplayFile{Property: e.Property, Sub: e.Sub, Message: msg, Case: raw}
	out, _ := json.MarshalIndent(rf, "", " ")
	dir := replayDir()
	_ = os.MkdirAll(dir, 0o755)
	seed := os.Getenv("VERIF_SEED_EFF")
	name := fmt.Sprintf("%s-%s-s%s-%d.json", e.Property, sanitize(e.Sub), seed, n)
	path := filepath.Join(dir, name)
	_ = os.WriteFile(path, out, 0o644)
	return path
}

func sanitize(s string) string {
	return strings.Map(func(r rune) rune {
		if r >= 'a' && r <= 'z' || r >= 'A' && r <= 'Z' || r >= '0' && r <= '9' || r == '-' || r == '_' {
			return r
		}
		return '_'
	}, s)
}

// Build aborts: the program under test refusing to build the unchanged source tree for a
// supported configuration is its behaviour, not trouble of the tooling. tree.go notes such
// aborts here; the test's evidence turns them into violations when it is flushed.
type buildAbort struct {
	Config string `json:"config"`
	Output string `json:"output"`
}

var (
	buildAbortMu sync.Mutex
	buildAborts  []buildAbort
)

func noteBuildAbort(config, output string) {
	buildAbortMu.Lock()
	defer buildAbortMu.Unlock()
	buildAborts = append(buildAborts, buildAbort{config, output})
}

func (e *Ev) Flush(t testing.TB) {
	buildAbortMu.Lock()
	aborts := buildAborts
	buildAborts = nil
	buildAbortMu.Unlock()
	seenAbort := map[string]bool{}
	for _, a := range aborts {
		if seenAbort[a.Config] {
			continue
		}
		seenAbort[a.Config] = true
		e.Violate(a, "build-abort:"+a.Config, "the build of the source tree aborts for %s:\n%s", a.Config, a.Output)
	}
	e.mu.Lock()
	defer e.mu.Unlock()
	if e.lastFail != nil && t.Failed() {
		path := e.writeReplay(e.lastFail.Case, e.lastFail.Msg, len(e.Violations))
		e.Violations = append(e.Violations, Violation{Key: e.lastFail.Key, Message: e.lastFail.Msg, Replay: path})
		e.lastFail = nil
	} else if t.Failed() && len(e.Violations) == 0 {
		// failed without a recorded case: infrastructure trouble or a panic in the
		// harness; the driver maps this to exit 2 unless a violation was recorded.
		e.Notes = append(e.Notes, "test failed without a recorded case")
	}
	e.Distinct = len(e.hashes)
	dir := os.Getenv("VERIF_EV_OUT")
	if dir == "" {
		return
	}
	_ = os.MkdirAll(dir, 0o755)
	// hashes go to a side file so that the driver can union them across shards
	if len(e.hashes) > 0 {
		hp := filepath.Join(dir, sanitize(e.Sub)+".hashes")
		f, err := os.Create(hp)
		if err == nil {
			w := bufio.NewWriter(f)
			keys := make([]uint64, 0, len(e.hashes))
			for k := range e.hashes {
				keys = append(keys, k)
			}
			sort.Slice(keys, func(i, j int) bool { return keys[i] < keys[j] })
			var b [8]byte
			for _, k := range keys {
				binary.LittleEndian.PutUint64(b[:], k)
				w.Write(b[:])
			}
			w.Flush()
			f.Close()
			e.HashFile = hp
		}
	}
	out, err := json.MarshalIndent(e, "", " ")
	if err != nil {
		// samples not serialisable: drop them rather than lose the counters
		e.Samples = []any{fmt.Sprintf("%+v", e.Samples)}
		out, _ = json.MarshalIndent(e, "", " ")
	}
	_ = os.WriteFile(filepath.Join(dir, sanitize(e.Sub)+".json"), out, 0o644)
}

// ---------------------------------------------------------------------------
// known findings

type knownEntry struct {
	Property string
	Key      string
	Text     string
}

var (
	knownOnce sync.Once
	knownList []knownEntry
)

func knownFile() string {
	if p := os.Getenv("VERIF_KNOWN"); p != "" {
		return p
	}
	return "/verif/known_findings.txt"
}

func loadKnown() {
	knownOnce.Do(func() {
		data, err := os.ReadFile(knownFile())
		if err != nil {
			return
		}
		for _, line := range strings.Split(string(data), "\n") {
			line = strings.TrimSpace(line)
			if !strings.HasPrefix(line, "known:") {
				continue // "fixed:" entries and comments suppress nothing
			}
			rest := strings.TrimSpace(strings.TrimPrefix(line, "known:"))
			text := ""
			if i := strings.Index(rest, "::"); i >= 0 {
				text = strings.TrimSpace(rest[i+2:])
				rest = strings.TrimSpace(rest[:i])
			}
			var ke knownEntry
			ke.Text = text
			for _, f := range strings.Fields(rest) {
				if v, ok := strings.CutPrefix(f, "property="); ok {
					ke.Property = v
				} else if v, ok := strings.CutPrefix(f, "key="); ok {
					ke.Key = v
				}
			}
			if ke.Property != "" && ke.Key != "" {
				knownList = append(knownList, ke)
			}
		}
	})
}

// IsKnown reports whether key is a listed known finding of the property.
func IsKnown(property, key string) bool {
	loadKnown()
	for _, k := range knownList {
		if k.Property == property && k.Key == key {
			return true
		}
	}
	return false
}

// KnownKeys lists the keys of a property with a given prefix.
func KnownKeys(property, prefix string) []string {
	loadKnown()
	var res []string
	for _, k := range knownList {
		if k.Property == property && strings.HasPrefix(k.Key, prefix) {
			res = append(res, k.Key)
		}
	}
	return res
}

// LoadReplay reads a replay file (VERIF_REPLAY) and decodes its case into v.
func LoadReplay(path string, v any) (*ReplayFile, error) {
	data, err := os.ReadFile(path)
	if err != nil {
		return nil, err
	}
	var rf ReplayFile
	if err := json.Unmarshal(data, &rf); err != nil {
		return nil, err
	}
	if v != nil {
		if err := json.Unmarshal(rf.Case, v); err != nil {
			return &rf, err
		}
	}
	return &rf, nil
}

// ---------------------------------------------------------------------------
// exploration mode (development aid): with VERIF_EXPLORE=1 failures are
// tallied by class instead of stopping the run, so that all failure classes
// of a generator show up in one pass. Never used by registered commands.

var exploring = os.Getenv("VERIF_EXPLORE") != ""

type exploreRec struct {
	n       int
	example string
}

var (
	exploreMu  sync.Mutex
	exploreMap = map[string]*exploreRec{}
)

// Explore returns true (and swallows the failure) in exploration mode.
func Explore(class string, err error) bool {
	if !exploring {
		return false
	}
	exploreMu.Lock()
	defer exploreMu.Unlock()
	r := exploreMap[class]
	if r == nil {
		r = &exploreRec{example: err.Error()}
		exploreMap[class] = r
	}
	if len(err.Error()) < len(r.example) {
		r.example = err.Error()
	}
	r.n++
	return true
}

func ExploreReport(t testing.TB) {
	if !exploring {
		return
	}
	keys := make([]string, 0, len(exploreMap))
	for k := range exploreMap {
		keys = append(keys, k)
	}
	sort.Slice(keys, func(i, j int) bool { return exploreMap[keys[i]].n > exploreMap[keys[j]].n })
	for _, k := range keys {
		t.Logf("EXPLORE class=%q n=%d\n%s\n", k, exploreMap[k].n, exploreMap[k].example)
	}
}
