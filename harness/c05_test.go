package harness

// C05 — build mode and flags manifests, and nothing else, determine profile flags.

import (
	"encoding/json"
	"fmt"
	"os"
	"path/filepath"
	"regexp"
	"sort"
	"strings"
	"sync"
	"testing"

	"github.com/roddhjav/apparmor.d/pkg/prebuild"
	"github.com/roddhjav/apparmor.d/pkg/prebuild/builder"
	"pgregory.net/rapid"
)

// blockHeader is what the independent header scanner reads from one line.
type blockHeader struct {
	Line  string
	Kind  string // profile | hat
	Rest  string // the header without its flags: name, attachment, xattrs (blanks normalised)
	Flags []string
}

var (
	reHdrFlags     = regexp.MustCompile(`\s*flags=\(([^)]*)\)`)
	reBraceComment = regexp.MustCompile(`\{\s*#.*$`)
)

// scanHeaders finds the block headers of a policy text: lines ending in '{'
// whose first token is profile, hat or starts with '^'.
func scanHeaders(text string) []blockHeader {
	var res []blockHeader
	for _, line := range strings.Split(text, "\n") {
		t := strings.TrimSpace(line)
		if !strings.HasSuffix(t, "{") {
			// a comment may follow the opening brace of a header ('profile x { # why'): valid AppArmor
			loc := reBraceComment.FindStringIndex(t)
			if loc == nil || !(strings.HasPrefix(t, "profile") || strings.HasPrefix(t, "hat ") || strings.HasPrefix(t, "^")) {
				continue
			}
			t = t[:loc[0]+1]
		}
		first := strings.Fields(t)
		if len(first) == 0 {
			continue
		}
		kind := ""
		switch {
		case first[0] == "profile" || strings.HasPrefix(first[0], "profile{"):
			kind = "profile"
		case first[0] == "hat" || strings.HasPrefix(first[0], "^"):
			kind = "hat"
		default:
			continue
		}
		body := strings.TrimSpace(strings.TrimSuffix(t, "{"))
		var flags []string
		if m := reHdrFlags.FindStringSubmatch(body); m != nil {
			for _, f := range strings.FieldsFunc(m[1], func(r rune) bool { return r == ',' || r == ' ' }) {
				flags = append(flags, f)
			}
			body = reHdrFlags.ReplaceAllString(body, "")
		}
		sort.Strings(flags)
		res = append(res, blockHeader{Line: line, Kind: kind, Rest: strings.Join(strings.Fields(body), " "), Flags: flags})
	}
	return res
}

func flagSet(l []string) string {
	m := map[string]bool{}
	for _, f := range l {
		m[f] = true
	}
	var r []string
	for f := range m {
		r = append(r, f)
	}
	sort.Strings(r)
	return strings.Join(r, ",")
}

func withFlag(l []string, f string) []string { return append(append([]string{}, l...), f) }
func withoutFlag(l []string, f string) []string {
	var r []string
	for _, x := range l {
		if x != f {
			r = append(r, x)
		}
	}
	return r
}

// compareNoneWithSource: the blocks a built file has from its own source (blocks added by a stack
// directive come after them) carry the manifest's flags if a manifest gives flags for the file,
// the source's flags otherwise.
func compareNoneWithSource(built, source string, manifest []string) string {
	hb, hs := scanHeaders(built), scanHeaders(source)
	if len(hb) < len(hs) {
		return fmt.Sprintf("the built file has %d block headers, its source %d", len(hb), len(hs))
	}
	for i := range hs {
		want := flagSet(hs[i].Flags)
		why := "its source"
		if manifest != nil {
			want, why = flagSet(manifest), "the flags manifest"
		}
		if got := flagSet(hb[i].Flags); got != want {
			return fmt.Sprintf("block %d (%s) built with neither option has flags {%s}, %s says {%s}", i, strings.TrimSpace(hb[i].Line), got, why, want)
		}
	}
	return ""
}

// compareModes checks one file built in the three modes.
func compareModes(none, complain, enforce string) error {
	hn, hc, he := scanHeaders(none), scanHeaders(complain), scanHeaders(enforce)
	if len(hn) != len(hc) || len(hn) != len(he) {
		return fmt.Errorf("the number of block headers differs between modes: none=%d complain=%d enforce=%d", len(hn), len(hc), len(he))
	}
	for i := range hn {
		if hc[i].Rest != hn[i].Rest || hc[i].Kind != hn[i].Kind {
			return fmt.Errorf("block %d: complain build changes the header beyond its flags\n  none    : %q\n  complain: %q", i, hn[i].Line, hc[i].Line)
		}
		if he[i].Rest != hn[i].Rest || he[i].Kind != hn[i].Kind {
			return fmt.Errorf("block %d: enforce build changes the header beyond its flags\n  none   : %q\n  enforce: %q", i, hn[i].Line, he[i].Line)
		}
		if want, got := flagSet(withFlag(hn[i].Flags, "complain")), flagSet(hc[i].Flags); want != got {
			return fmt.Errorf("block %d: complain build has flags {%s}, want {%s} (none-build flags plus complain)\n  none    : %q\n  complain: %q", i, got, want, hn[i].Line, hc[i].Line)
		}
		if want, got := flagSet(withoutFlag(hn[i].Flags, "complain")), flagSet(he[i].Flags); want != got {
			return fmt.Errorf("block %d: enforce build has flags {%s}, want {%s} (none-build flags minus complain)\n  none   : %q\n  enforce: %q", i, got, want, hn[i].Line, he[i].Line)
		}
	}
	return nil
}

func c05Cells() []Config {
	var cells []Config
	for _, d := range allDists {
		for _, av := range primaryAV {
			for _, f := range []bool{false, true} {
				cells = append(cells, Config{Dist: d, ABI: av.ABI, Version: av.Ver, Full: f})
			}
		}
	}
	if isThorough() {
		return cells
	}
	return coveringSample(cells, 4, seedInt())
}

func TestC05_Shipped(t *testing.T) {
	if err := haveBins(); err != nil {
		t.Fatalf("INFRA: %v", err)
	}
	ev := NewEv(t, "C05", "shipped", "triples of real builds (none, complain, enforce) of the shipped tree for the same (distribution, ABI, version, full) cell - all 30 cells in thorough, a seeded covering sample of 4 in quick; oracle: independent header scanner; for every file and block index the three headers agree on everything but flags, flags(complain) = flags(none) + complain, flags(enforce) = flags(none) - complain, as sets; and flags(none) of every block a file has from its own source = the manifest's flags where a manifest gives flags for the file (prepare model), the source's flags otherwise. Non-trivial: a file with >= 2 blocks whose flags differ, or whose first flags=( is not on the first header; distinct by cell + file")
	ev.Exhaustive = isThorough()
	cells := c05Cells()
	var mu sync.Mutex
	parallel(len(cells), 4, func(i int) {
		cell := cells[i]
		var builds [3]*Build
		for m, mode := range allModes {
			c := cell
			c.Mode = mode
			c.Short = i%2 == 1 // every other cell spells its options with one letter
			b, err := BuildShipped(c, false)
			builds[m] = b
			defer b.Clean()
			if err != nil {
				mu.Lock()
				t.Errorf("INFRA: %v", err)
				mu.Unlock()
				return
			}
		}
		files := listFiles(builds[0].Apparmord())
		nblocks := 0
		// "the flags it has when built with neither option, i.e. the source flags as overridden by
		// the common and per-distribution flags manifests": the prepare model says which source
		// file and which manifest entry stand behind every built file
		pm, perr := modelPrepare(repoRoot(), cell)
		if perr != nil {
			mu.Lock()
			t.Errorf("INFRA: %v", perr)
			mu.Unlock()
			return
		}
		for _, f := range files {
			if strings.HasPrefix(f, "disable/") {
				continue
			}
			tn := readFile(filepath.Join(builds[0].Apparmord(), f))
			if e, ok := pm.Apparmord[f]; ok && e.Source != "" {
				if msg := compareNoneWithSource(tn, readFile(filepath.Join(repoRoot(), e.Source)), e.Flags); msg != "" {
					mu.Lock()
					ev.Violate(map[string]any{"cell": cell, "file": f}, "shipped-none:"+f, "%s: %s: %s", cell, f, msg)
					t.Errorf("%s: %s: %s", cell, f, msg)
					mu.Unlock()
				}
			}
			tc := readFile(filepath.Join(builds[1].Apparmord(), f))
			te := readFile(filepath.Join(builds[2].Apparmord(), f))
			hs := scanHeaders(tn)
			if len(hs) == 0 {
				continue
			}
			nblocks += len(hs)
			key := ""
			if len(hs) >= 2 {
				first := flagSet(hs[0].Flags)
				for _, h := range hs[1:] {
					if flagSet(h.Flags) != first {
						key = cell.String() + "|" + f
					}
				}
			}
			mu.Lock()
			ev.Case(key, "cell:"+cell.String())
			if err := compareModes(tn, tc, te); err != nil {
				k := "shipped:" + f
				ev.Violate(map[string]any{"cell": cell, "file": f}, k, "%s: %s: %v", cell, f, err)
				t.Errorf("%s: %s: %v", cell, f, firstLine(err))
			}
			mu.Unlock()
		}
		mu.Lock()
		ev.Sample(map[string]any{"cell": cell.String(), "files": len(files), "block_headers": nblocks})
		mu.Unlock()
	})
}

// ---------------------------------------------------------------------------
// generated headers through the in-process builder chain

type C05Block struct {
	Kind   string   `json:"kind"` // profile | subprofile | hat | hat2
	Name   string   `json:"name"`
	Att    string   `json:"att,omitempty"`
	Xattrs string   `json:"xattrs,omitempty"`
	Flags  []string `json:"flags,omitempty"`
	Sep    string   `json:"sep,omitempty"`  // separator used inside flags=( )
	Glue   bool     `json:"glue,omitempty"` // no blank between flags=(...) and the brace
}

type C05Case struct {
	Blocks []C05Block `json:"blocks"`
	Abi3   bool       `json:"abi3"`
}

func (b C05Block) header(indent string) string {
	var s string
	switch b.Kind {
	case "hat":
		s = indent + "hat " + b.Name
	case "hat2":
		s = indent + "^" + b.Name
	default:
		s = indent + "profile " + b.Name
	}
	if b.Att != "" {
		s += " " + b.Att
	}
	if b.Xattrs != "" {
		s += " xattrs=(" + b.Xattrs + ")"
	}
	if len(b.Flags) > 0 {
		s += " flags=(" + strings.Join(b.Flags, b.Sep) + ")"
		if b.Glue {
			return s + "{" // as in the shipped cni-flannel: valid, the parser accepts it
		}
	}
	return s + " {"
}

func (c C05Case) Text() string {
	var b strings.Builder
	b.WriteString("abi <abi/4.0>,\n\ninclude <tunables/global>\n\n@{exec_path} = @{bin}/foo\n")
	main := c.Blocks[0]
	b.WriteString(main.header("") + "\n  include <abstractions/base>\n\n  @{exec_path} mr,\n  @{bin}/bar rPx,\n\n")
	for _, sb := range c.Blocks[1:] {
		b.WriteString(sb.header("  ") + "\n    include <abstractions/base>\n\n    @{bin}/x rix,\n\n    include if exists <local/foo_" + sb.Name + ">\n  }\n\n")
	}
	b.WriteString("  include if exists <local/foo>\n}\n")
	return b.String()
}

var c05FlagPool = []string{"attach_disconnected", "complain", "mediate_deleted", "audit", "kill", "enforce", "unconfined", "debug"}

func genC05Case(t *rapid.T) C05Case {
	var c C05Case
	c.Abi3 = chance(t, "abi3", 3)
	n := rapid.IntRange(1, 4).Draw(t, "nblocks")
	for i := 0; i < n; i++ {
		var b C05Block
		if i == 0 {
			b.Kind = "profile"
			b.Name = pick(t, "name", []string{"foo", "foo-bar", `"foo bar"`})
			b.Att = pick(t, "att", []string{"@{exec_path}", "@{exec_path}", ""})
			b.Xattrs = maybe(t, "xattrs", []string{"security.tag=foo", `user.x="a b"`})
		} else {
			b.Kind = pick(t, "kind", []string{"subprofile", "subprofile", "hat", "hat2"})
			b.Name = fmt.Sprintf("sub%d", i)
			if b.Kind == "subprofile" {
				b.Att = maybe(t, "subatt", []string{"@{bin}/sub", "/usr/bin/{a,b}"})
			}
		}
		b.Flags = subsetOrdered(t, "flags", c05FlagPool, 0, 3)
		b.Sep = pick(t, "sep", []string{",", ",", ", "})
		b.Glue = chance(t, "glue", 6)
		c.Blocks = append(c.Blocks, b)
	}
	return c
}

var c05mu sync.Mutex

func c05Build(text string, mode string, abi3 bool) (out string, err error) {
	defer func() {
		if p := recover(); p != nil {
			err = fmt.Errorf("builder.Run panicked: %v", p)
		}
	}()
	builder.Builds = nil
	chain := []string{"userspace", "hotfix"}
	if mode != "" {
		chain = append(chain, mode)
	}
	if abi3 {
		chain = append(chain, "abi3")
	}
	builder.Register(chain...)
	return builder.Run(prebuild.RootApparmord.Join("foo"), text)
}

func c05Oracle(c C05Case) error {
	c05mu.Lock()
	defer c05mu.Unlock()
	text := c.Text()
	var outs [3]string
	for i, m := range allModes {
		o, err := c05Build(text, m, c.Abi3)
		if err != nil {
			return fmt.Errorf("builder chain (%s) failed: %v\n%s", m, err, text)
		}
		outs[i] = o
	}
	if err := compareModes(outs[0], outs[1], outs[2]); err != nil {
		return fmt.Errorf("%v\n--- source\n%s", err, text)
	}
	// the body (everything but block headers) is the same in the three modes
	strip := func(s string) string {
		var r []string
		for _, l := range strings.Split(s, "\n") {
			if t := strings.TrimSpace(l); strings.HasSuffix(t, "{") {
				continue
			}
			r = append(r, l)
		}
		return strings.Join(r, "\n")
	}
	if strip(outs[0]) != strip(outs[1]) || strip(outs[0]) != strip(outs[2]) {
		return fmt.Errorf("the build mode changes lines that are not block headers\n--- none\n%s--- complain\n%s--- enforce\n%s", outs[0], outs[1], outs[2])
	}
	return nil
}

func TestC05_Generated(t *testing.T) {
	ev := NewEv(t, "C05", "generated", "generated profile files with 1-4 blocks (main profile, sub-profiles, hats in both spellings), each with its own 0-3 flags (',' or ', ' separated), optional attachment and xattrs, quoted names; run in-process through the builder chain (userspace, hotfix, mode, optional abi3) in the three modes; same oracle as the shipped part plus: lines that are not block headers are identical in the three modes. Non-trivial: >= 2 blocks whose flags differ, or flags on a later block only; distinct by text")
	rapid.Check(t, func(t *rapid.T) {
		c := genC05Case(t)
		key := ""
		if len(c.Blocks) >= 2 {
			f0 := flagSet(c.Blocks[0].Flags)
			for _, b := range c.Blocks[1:] {
				if flagSet(b.Flags) != f0 {
					key = c.Text()
				}
			}
		}
		ev.Case(key, fmt.Sprintf("blocks:%d", len(c.Blocks)))
		ev.Sample(map[string]any{"text": c.Text()})
		if err := c05Oracle(c); err != nil {
			if Explore(firstLine(err), err) {
				return
			}
			t.Fatalf("%s", ev.Fail(c, "", "%v", err))
		}
	})
	ExploreReport(t)
}

func TestC05_Replay(t *testing.T) {
	path := os.Getenv("VERIF_REPLAY")
	if path == "" {
		t.Skip("no VERIF_REPLAY")
	}
	rf, err := LoadReplay(path, nil)
	if err != nil {
		t.Fatal(err)
	}
	ev := NewEv(t, "C05", "replay", "replay of one saved case")
	ev.Case("replay")
	if rf.Sub == "generated" {
		var c C05Case
		json.Unmarshal(rf.Case, &c)
		if oerr := c05Oracle(c); oerr != nil {
			ev.Violate(json.RawMessage(rf.Case), "", "%v", oerr)
			t.Fatalf("%v", oerr)
		}
		return
	}
	var w struct {
		Cell Config `json:"cell"`
		File string `json:"file"`
	}
	json.Unmarshal(rf.Case, &w)
	var texts [3]string
	for m, mode := range allModes {
		c := w.Cell
		c.Mode = mode
		b, err := BuildShipped(c, false)
		if err != nil {
			b.Clean()
			t.Fatalf("INFRA: %v", err)
		}
		texts[m] = readFile(filepath.Join(b.Apparmord(), w.File))
		b.Clean()
	}
	if oerr := compareModes(texts[0], texts[1], texts[2]); oerr != nil {
		ev.Violate(json.RawMessage(rf.Case), "", "%s %s: %v", w.Cell, w.File, oerr)
		t.Fatalf("%v", oerr)
	}
}
