package harness

// C18 — build options are orthogonal: each changes only what it governs.

import (
	"encoding/json"
	"fmt"
	"os"
	"path/filepath"
	"regexp"
	"sort"
	"strings"
	"sync"
	"testing"
)

type builtTree struct {
	Cfg   Config
	Files map[string]string // relative path -> text; symlinks as "-> target"
}

func loadBuiltTree(c Config) (*builtTree, error) {
	b, err := BuildShipped(c, false)
	defer b.Clean()
	if err != nil {
		return nil, err
	}
	t := &builtTree{Cfg: c, Files: map[string]string{}}
	aad := b.Apparmord()
	filepath.Walk(aad, func(path string, info os.FileInfo, err error) error {
		if err != nil || info.IsDir() {
			return nil
		}
		rel, _ := filepath.Rel(aad, path)
		if info.Mode()&os.ModeSymlink != 0 {
			tg, _ := os.Readlink(path)
			t.Files[rel] = "-> " + tg
		} else {
			t.Files[rel] = readFile(path)
		}
		return nil
	})
	// the systemd drop-ins of the build: only the full-system-policy option governs them
	sysRoot := filepath.Join(b.Root(), "systemd")
	for _, rel := range listFiles(sysRoot) {
		t.Files["../systemd/"+rel] = readFile(filepath.Join(sysRoot, rel))
	}
	return t, nil
}

// a small cache so that neighbouring pairs share builds
var (
	treeMu    sync.Mutex
	treeCache = map[string]*builtTree{}
	treeOrder []string
)

func cachedTree(c Config) (*builtTree, error) {
	k := c.String()
	treeMu.Lock()
	if t, ok := treeCache[k]; ok {
		treeMu.Unlock()
		return t, nil
	}
	treeMu.Unlock()
	t, err := loadBuiltTree(c)
	if err != nil {
		return nil, err
	}
	treeMu.Lock()
	treeCache[k] = t
	treeOrder = append(treeOrder, k)
	for len(treeOrder) > 40 {
		delete(treeCache, treeOrder[0])
		treeOrder = treeOrder[1:]
	}
	treeMu.Unlock()
	return t, nil
}

// ---------------------------------------------------------------------------
// what each option governs (independent tokenizer + the source tree)

type guardIndex struct {
	// trimmed, case-folded text of every source line guarded by an only/exclude
	// directive, keyed by the filter words of that directive
	byWord map[string]map[string]bool
}

var (
	guardOnce sync.Once
	guards    guardIndex
)

func normLine(l string) string {
	return strings.ToLower(strings.Join(strings.Fields(cutComment(l)), " "))
}

func buildGuardIndex() {
	guards.byWord = map[string]map[string]bool{}
	add := func(words []string, line string) {
		n := normLine(line)
		if n == "" {
			return
		}
		for _, w := range words {
			if guards.byWord[w] == nil {
				guards.byWord[w] = map[string]bool{}
			}
			guards.byWord[w][n] = true
		}
	}
	for _, text := range sourceTextIndex() {
		if !strings.Contains(text, "#aa:only") && !strings.Contains(text, "#aa:exclude") {
			continue
		}
		for _, s := range segmentShipped(text) {
			switch s.Kind {
			case "inline":
				add(s.Filters, s.Text)
			case "para":
				for _, l := range s.Lines {
					add(s.Filters, l)
				}
			}
		}
	}
}

func guardedBy(line string, words []string) bool {
	guardOnce.Do(buildGuardIndex)
	n := normLine(line)
	// text generated from a guarded line by the other build steps keeps its tokens:
	// compare modulo the x-mode rewrites of hotfix / fsp
	for _, w := range words {
		if guards.byWord[w][n] {
			return true
		}
		for g := range guards.byWord[w] {
			if strings.EqualFold(reXmode.ReplaceAllString(g, "x,"), reXmode.ReplaceAllString(n, "x,")) {
				return true
			}
		}
	}
	return false
}

var reXmode = regexp.MustCompile(`(?i)r(pu|u|p)x,`)

func isHeaderLine(l string) bool {
	hs := scanHeaders(l)
	return len(hs) == 1
}

func sameHeaderButFlags(a, b string) bool {
	ha, hb := scanHeaders(a), scanHeaders(b)
	return len(ha) == 1 && len(hb) == 1 && ha[0].Rest == hb[0].Rest && ha[0].Kind == hb[0].Kind
}

func ruleKeyword(l string) string {
	toks := strings.Fields(l)
	j := 0
	for j < len(toks) && (toks[j] == "audit" || toks[j] == "deny" || toks[j] == "allow" || toks[j] == "#") {
		j++
	}
	if j < len(toks) {
		return strings.TrimSuffix(toks[j], ",")
	}
	return ""
}

// hunk: a maximal run of lines that differ between two texts.
type hunk struct{ A, B []string }

// lineDiff returns the differing runs of two texts (LCS after trimming the
// common prefix and suffix).
func lineDiff(a, b string) []hunk {
	la, lb := strings.Split(a, "\n"), strings.Split(b, "\n")
	var hunks []hunk
	p := 0
	for p < len(la) && p < len(lb) && la[p] == lb[p] {
		p++
	}
	s := 0
	for s < len(la)-p && s < len(lb)-p && la[len(la)-1-s] == lb[len(lb)-1-s] {
		s++
	}
	ma, mb := la[p:len(la)-s], lb[p:len(lb)-s]
	n, m := len(ma), len(mb)
	if n*m > 6000000 {
		return []hunk{{ma, mb}}
	}
	dp := make([][]int32, n+1)
	for i := range dp {
		dp[i] = make([]int32, m+1)
	}
	for i := n - 1; i >= 0; i-- {
		for j := m - 1; j >= 0; j-- {
			if ma[i] == mb[j] {
				dp[i][j] = dp[i+1][j+1] + 1
			} else if dp[i+1][j] >= dp[i][j+1] {
				dp[i][j] = dp[i+1][j]
			} else {
				dp[i][j] = dp[i][j+1]
			}
		}
	}
	var cur hunk
	flush := func() {
		if len(cur.A)+len(cur.B) > 0 {
			hunks = append(hunks, cur)
			cur = hunk{}
		}
	}
	i, j := 0, 0
	for i < n && j < m {
		switch {
		case ma[i] == mb[j]:
			flush()
			i++
			j++
		case dp[i+1][j] >= dp[i][j+1]:
			cur.A = append(cur.A, ma[i])
			i++
		default:
			cur.B = append(cur.B, mb[j])
			j++
		}
	}
	cur.A = append(cur.A, ma[i:]...)
	cur.B = append(cur.B, mb[j:]...)
	flush()
	return hunks
}

func cancelCommon(h hunk) hunk {
	count := map[string]int{}
	for _, l := range h.B {
		count[l]++
	}
	var a []string
	for _, l := range h.A {
		if count[l] > 0 {
			count[l]--
			continue
		}
		a = append(a, l)
	}
	var b []string
	used := map[string]int{}
	for _, l := range h.A {
		used[l]++
	}
	for _, l := range h.B {
		if used[l] > 0 {
			used[l]--
			continue
		}
		b = append(b, l)
	}
	return hunk{a, b}
}

type axisRules struct {
	name        string
	words       []string                         // filter words this option governs
	changedOK   func(file, a, b string) bool     // a changed line pair
	unpairedOK  func(file, l string) bool        // a line present on one side only
	fileOnlyOK  func(file string, inA bool) bool // a file present on one side only
	renameOther func(file string) (string, bool) // the name of the same file on the other side
}

func manifestNames(dist string) map[string]bool {
	res := map[string]bool{}
	for _, line := range readManifestLines(filepath.Join(repoRoot(), "dists", "flags", dist+".flags")) {
		res[strings.Fields(line)[0]] = true
	}
	return res
}

func rulesFor(a, b Config) (*axisRules, error) {
	diffs := 0
	r := &axisRules{}
	blankOrGuarded := func(words []string) func(string, string) bool {
		return func(file, l string) bool { return strings.TrimSpace(l) == "" || guardedBy(l, words) }
	}
	if a.Mode != b.Mode {
		diffs++
		r.name = "mode"
		r.changedOK = func(file, x, y string) bool { return sameHeaderButFlags(x, y) }
		r.unpairedOK = func(file, l string) bool { return false }
		r.fileOnlyOK = func(string, bool) bool { return false }
	}
	if a.ABI != b.ABI {
		diffs++
		r.name = "abi"
		r.words = []string{"abi3", "abi4"}
		over := map[string]bool{}
		for _, n := range readManifestLines(filepath.Join(repoRoot(), "dists", "overwrite")) {
			over[n] = true
		}
		r.changedOK = func(file, x, y string) bool {
			tx, ty := strings.TrimSpace(x), strings.TrimSpace(y)
			// the abi declaration
			if strings.HasPrefix(tx, "abi ") && strings.HasPrefix(ty, "abi ") && strings.Replace(tx, "abi/4.0", "abi/3.0", 1) == strings.Replace(ty, "abi/4.0", "abi/3.0", 1) {
				return true
			}
			// an AppArmor-4-only rule and the same text commented out
			for _, p := range [][2]string{{tx, ty}, {ty, tx}} {
				if kw := ruleKeyword(p[0]); (kw == "userns" || kw == "mqueue") && !strings.HasPrefix(p[0], "#") && strings.HasPrefix(p[1], "# ") && strings.TrimPrefix(p[1], "# ") == p[0] {
					return true
				}
			}
			return blankOrGuarded(r.words)(file, x) && blankOrGuarded(r.words)(file, y)
		}
		r.unpairedOK = blankOrGuarded(r.words)
		r.fileOnlyOK = func(f string, inA bool) bool {
			return strings.HasPrefix(f, "disable/") || over[strings.TrimSuffix(f, ".apparmor.d")]
		}
		r.renameOther = func(f string) (string, bool) {
			if strings.HasSuffix(f, ".apparmor.d") {
				return strings.TrimSuffix(f, ".apparmor.d"), true
			}
			if over[f] {
				return f + ".apparmor.d", true
			}
			return "", false
		}
	}
	if a.Version != b.Version {
		diffs++
		r.name = "version"
		r.words = []string{"apparmor3.0", "apparmor4.0", "apparmor4.1"}
		r.changedOK = func(file, x, y string) bool {
			return blankOrGuarded(r.words)(file, x) && blankOrGuarded(r.words)(file, y)
		}
		r.unpairedOK = blankOrGuarded(r.words)
		r.fileOnlyOK = func(f string, inA bool) bool {
			if containsStr(upstreamed41, f) {
				return true
			}
			// the documented configure overlay (dists/ubuntu) of debian / whonix below 4.1
			_, err := os.Stat(filepath.Join(repoRoot(), "dists", "ubuntu", f))
			return err == nil && (a.Dist == "debian" || a.Dist == "whonix")
		}
	}
	if a.Dist != b.Dist {
		diffs++
		r.name = "dist"
		r.words = []string{a.Dist, b.Dist, docFamily[a.Dist], docFamily[b.Dist]}
		man := manifestNames(a.Dist)
		for k := range manifestNames(b.Dist) {
			man[k] = true
		}
		ma, _ := modelPrepare(repoRoot(), a)
		mb, _ := modelPrepare(repoRoot(), b)
		r.changedOK = func(file, x, y string) bool {
			if man[strings.TrimSuffix(file, ".apparmor.d")] && sameHeaderButFlags(x, y) {
				return true
			}
			return blankOrGuarded(r.words)(file, x) && blankOrGuarded(r.words)(file, y)
		}
		r.unpairedOK = blankOrGuarded(r.words)
		r.fileOnlyOK = func(f string, inA bool) bool {
			// governed by the two distributions' ignore lists and configure step: the
			// documented model of the prepare stage says which side has the file
			_, ea := ma.Apparmord[f]
			_, eb := mb.Apparmord[f]
			return ea != eb && ea == inA
		}
	}
	if a.Full != b.Full {
		diffs++
		r.name = "full"
		fullNames := map[string]bool{}
		entries, _ := os.ReadDir(filepath.Join(repoRoot(), "apparmor.d", "groups", "_full"))
		for _, e := range entries {
			fullNames[e.Name()] = true
		}
		r.changedOK = func(file, x, y string) bool {
			if file == "tunables/multiarch.d/profiles" && strings.Contains(x, "@{p_systemd") && strings.Contains(y, "@{p_systemd") {
				return true
			}
			if file == "abstractions/gstreamer" && (strings.Contains(x, "gst-plugin-scanner") || strings.Contains(y, "gst-plugin-scanner")) {
				return true
			}
			// exec transition mode of a file rule without target: (pu|u)x <-> px, nothing else
			tx, ty := ruleTokens(x), ruleTokens(y)
			if len(tx) != len(ty) || containsStr(tx, "->") {
				return false
			}
			nd := 0
			for i := range tx {
				if tx[i] == ty[i] {
					continue
				}
				nd++
				lo, hi := strings.ToLower(tx[i]), strings.ToLower(ty[i])
				okTok := func(u, p string) bool {
					return strings.HasSuffix(p, "px,") && (strings.HasSuffix(u, "pux,") && strings.TrimSuffix(u, "pux,") == strings.TrimSuffix(p, "px,") ||
						strings.HasSuffix(u, "ux,") && strings.TrimSuffix(u, "ux,") == strings.TrimSuffix(p, "px,"))
				}
				if !(okTok(lo, hi) || okTok(hi, lo)) || i == 0 || !isRulePath(tx[i-1]) {
					return false
				}
			}
			return nd == 1
		}
		r.unpairedOK = func(file, l string) bool {
			return strings.TrimSpace(l) == "" || (file == "abstractions/gstreamer" && strings.Contains(l, "gst-plugin-scanner"))
		}
		r.fileOnlyOK = func(f string, inA bool) bool { return fullNames[strings.TrimSuffix(f, ".apparmor.d")] }
	}
	if diffs != 1 {
		return nil, fmt.Errorf("configurations %s and %s differ in %d options", a, b, diffs)
	}
	return r, nil
}

type C18Pair struct {
	A Config `json:"a"`
	B Config `json:"b"`
}

type c18Problem struct {
	File string
	Msg  string
}

func c18Compare(p C18Pair) ([]c18Problem, map[string]int, error) {
	ta, err := cachedTree(p.A)
	if err != nil {
		return nil, nil, err
	}
	tb, err := cachedTree(p.B)
	if err != nil {
		return nil, nil, err
	}
	rules, err := rulesFor(p.A, p.B)
	if err != nil {
		return nil, nil, err
	}
	var probs []c18Problem
	stats := map[string]int{}
	add := func(file, format string, a ...any) {
		if len(probs) < 400 {
			probs = append(probs, c18Problem{file, fmt.Sprintf(format, a...)})
		}
	}
	dropin := func(f string) bool { return strings.HasPrefix(f, "../systemd/") }
	onlyOK := func(f string, inA bool) bool {
		if dropin(f) {
			return rules.name == "full"
		}
		return rules.fileOnlyOK(f, inA)
	}
	seenB := map[string]bool{}
	var names []string
	for f := range ta.Files {
		names = append(names, f)
	}
	sort.Strings(names)
	for _, f := range names {
		other := f
		textB, ok := tb.Files[f]
		if !ok && rules.renameOther != nil {
			if o, has := rules.renameOther(f); has {
				if tx, ok2 := tb.Files[o]; ok2 {
					other, textB, ok = o, tx, true
				}
			}
		}
		if !ok {
			stats["file-only"]++
			if !onlyOK(f, true) {
				add(f, "present only in %s; the %s option does not govern it", p.A, rules.name)
			}
			continue
		}
		seenB[other] = true
		textA := ta.Files[f]
		if textA == textB {
			continue
		}
		if dropin(f) {
			if rules.name != "full" {
				add(f, "the drop-in differs between %s and %s; the %s option does not govern the systemd drop-ins", p.A, p.B, rules.name)
			}
			continue
		}
		stats["files-differing"]++
		isComment := func(l string) bool { return strings.HasPrefix(strings.TrimSpace(l), "#") }
		var restA, restB []string // lines of runs that are not clean pairwise changes
		for _, h := range lineDiff(textA, textB) {
			h = cancelCommon(h)
			// a run of the same length on both sides is a set of line changes if every
			// pair is a change the option governs; otherwise its lines are judged one by one
			paired := len(h.A) == len(h.B)
			if paired {
				for k := range h.A {
					if !(isComment(h.A[k]) && isComment(h.B[k])) && !rules.changedOK(f, h.A[k], h.B[k]) {
						paired = false
					}
				}
			}
			if paired {
				for k := range h.A {
					if isComment(h.A[k]) && isComment(h.B[k]) {
						stats["comment-lines-changed (not policy, not judged)"]++
					} else {
						stats["lines-changed"]++
					}
				}
				continue
			}
			if len(h.A) == 1 && len(h.B) == 1 && strings.TrimSpace(h.A[0]) != "" && strings.TrimSpace(h.B[0]) != "" {
				stats["lines-changed"]++
				add(f, "line changes outside what the %s option governs:\n    %s: %q\n    %s: %q", rules.name, p.A, h.A[0], p.B, h.B[0])
				continue
			}
			restA = append(restA, h.A...)
			restB = append(restB, h.B...)
		}
		// the alignment of repeated lines is ambiguous: a line that is left over on both
		// sides of the file did not change (at most it moved among identical neighbours)
		rest := cancelCommon(hunk{restA, restB})
		for side, lines := range [][]string{rest.A, rest.B} {
			cfg := p.A
			if side == 1 {
				cfg = p.B
			}
			for _, l := range lines {
				if isComment(l) {
					stats["comment-lines-one-sided (not policy, not judged)"]++
					continue
				}
				stats["lines-one-sided"]++
				if !rules.unpairedOK(f, l) {
					add(f, "line only in %s, not governed by the %s option: %q", cfg, rules.name, l)
				}
			}
		}
	}
	for f := range tb.Files {
		if seenB[f] {
			continue
		}
		if _, ok := ta.Files[f]; ok {
			continue
		}
		stats["file-only"]++
		if !onlyOK(f, false) {
			add(f, "present only in %s; the %s option does not govern it", p.B, rules.name)
		}
	}
	return probs, stats, nil
}

func c18Pairs() []C18Pair {
	var pairs []C18Pair
	add := func(a, b Config) { pairs = append(pairs, C18Pair{a, b}) }
	for _, d := range allDists {
		for _, f := range []bool{false, true} {
			for _, av := range primaryAV {
				base := Config{Dist: d, ABI: av.ABI, Version: av.Ver, Full: f}
				// mode axis
				for i, m1 := range allModes {
					for _, m2 := range allModes[i+1:] {
						a, b := base, base
						a.Mode, b.Mode = m1, m2
						add(a, b)
					}
				}
			}
			// abi axis (same version), version axis (same abi)
			for _, v := range []string{"3.0", "4.0", "4.1"} {
				add(Config{Dist: d, ABI: 3, Version: v, Full: f}, Config{Dist: d, ABI: 4, Version: v, Full: f})
			}
			for _, abi := range []int{3, 4} {
				vs := []string{"3.0", "4.0", "4.1"}
				for i, v1 := range vs {
					for _, v2 := range vs[i+1:] {
						add(Config{Dist: d, ABI: abi, Version: v1, Full: f}, Config{Dist: d, ABI: abi, Version: v2, Full: f})
					}
				}
			}
		}
		// full axis
		for i, av := range primaryAV {
			add(Config{Dist: d, ABI: av.ABI, Version: av.Ver, Mode: allModes[i%3]}, Config{Dist: d, ABI: av.ABI, Version: av.Ver, Mode: allModes[i%3], Full: true})
		}
	}
	// distribution axis
	for _, av := range primaryAV {
		for _, f := range []bool{false, true} {
			for i, d1 := range allDists {
				for _, d2 := range allDists[i+1:] {
					add(Config{Dist: d1, ABI: av.ABI, Version: av.Ver, Full: f}, Config{Dist: d2, ABI: av.ABI, Version: av.Ver, Full: f})
				}
			}
		}
	}
	return pairs
}

func axisOf(p C18Pair) string {
	r, err := rulesFor(p.A, p.B)
	if err != nil {
		return "?"
	}
	return r.name
}

func TestC18_Pairs(t *testing.T) {
	if err := haveBins(); err != nil {
		t.Fatalf("INFRA: %v", err)
	}
	ev := NewEv(t, "C18", "pairs", "pairs of real builds of the shipped tree whose command lines differ in exactly one option (mode, ABI, AppArmor version, distribution, full) - about 330 pairs in thorough, about 46 in quick (all 10 distribution pairs and the 6 mode pairs at the default ABI / version plus a seeded sample of 30 covering every option); oracle: line-level diff of .build/apparmor.d (LCS per file) and the file-set difference; every differing line or file must fall in a class the changed option governs, decided by an independent tokenizer plus the source tree: mode -> block headers equal but for flags; ABI -> the abi declaration, an AppArmor-4-only rule vs the same text commented out, lines guarded by abiN, overwrite renames and disable/ links; version -> lines guarded by apparmorX.Y, the documented configure additions/removals; distribution -> lines guarded by a distribution or family, files governed by the ignore lists / configure overlay (per the prepare model), header flags of manifest files; full -> exec mode (pu|u)x <-> px on a file rule without target, the _full profiles, the @{p_systemd*} lines, the gstreamer line, the systemd drop-ins (.build/systemd, which no other option may touch). Non-trivial: a pair with >= 1 differing line; distinct by (option, file)")
	all := c18Pairs()
	var pairs []C18Pair
	if isThorough() {
		pairs = all
		ev.Exhaustive = true
	} else {
		// a structured sample that re-uses builds: every distribution against every other at the
		// default ABI / version (10 pairs over 5 builds), and seeded picks on the other options
		// and on the distribution option at the remaining ABI / version pairs
		for i, d1 := range allDists {
			for _, d2 := range allDists[i+1:] {
				pairs = append(pairs, C18Pair{Config{Dist: d1, ABI: 4, Version: "4.1"}, Config{Dist: d2, ABI: 4, Version: "4.1"}})
			}
		}
		// the three modes against each other at the default configuration, normal and full
		for _, f := range []bool{false, true} {
			base := Config{Dist: allDists[seedInt()%len(allDists)], ABI: 4, Version: "4.1", Full: f}
			for i, m1 := range allModes {
				for _, m2 := range allModes[i+1:] {
					a, b := base, base
					a.Mode, b.Mode = m1, m2
					pairs = append(pairs, C18Pair{a, b})
				}
			}
		}
		byAxis := map[string][]C18Pair{}
		have := map[string]bool{}
		for _, p := range pairs {
			have[p.A.String()+"|"+p.B.String()] = true
		}
		for _, p := range all {
			byAxis[axisOf(p)] = append(byAxis[axisOf(p)], p)
		}
		want := map[string]int{"mode": 6, "abi": 5, "version": 6, "dist": 8, "full": 5}
		seed := seedInt()
		for _, ax := range []string{"mode", "abi", "version", "dist", "full"} {
			l := byAxis[ax]
			for i, n := 0, 0; n < want[ax] && i < len(l); i++ {
				p := l[(seed*7+i*13+len(ax))%len(l)]
				if have[p.A.String()+"|"+p.B.String()] {
					continue
				}
				have[p.A.String()+"|"+p.B.String()] = true
				pairs = append(pairs, p)
				n++
			}
		}
	}
	var mu sync.Mutex
	parallel(len(pairs), 10, func(i int) {
		p := pairs[i]
		probs, stats, err := c18Compare(p)
		mu.Lock()
		defer mu.Unlock()
		if err != nil {
			t.Errorf("INFRA: %v", err)
			return
		}
		ax := axisOf(p)
		key := ""
		if stats["lines-changed"]+stats["lines-one-sided"] > 0 {
			key = ax + "|" + p.A.String() + "|" + p.B.String()
		}
		ev.Case(key, "axis:"+ax)
		ev.Sample(map[string]any{"a": p.A.String(), "b": p.B.String(), "option": ax, "stats": stats, "problems": len(probs)})
		for _, pr := range probs {
			k := "c18:" + ax + ":" + strings.TrimSuffix(pr.File, ".apparmor.d")
			if IsKnown("C18", k) {
				ev.KnownFinding(k, pr.Msg)
				continue
			}
			ev.Violate(map[string]any{"a": p.A, "b": p.B}, k, "%s vs %s: %s: %s", p.A, p.B, pr.File, pr.Msg)
			t.Errorf("%s vs %s: %s: %s", p.A, p.B, pr.File, firstLine(fmt.Errorf("%s", pr.Msg)))
		}
	})
}

func TestC18_Replay(t *testing.T) {
	path := os.Getenv("VERIF_REPLAY")
	if path == "" {
		t.Skip("no VERIF_REPLAY")
	}
	var p C18Pair
	rf, err := LoadReplay(path, &p)
	if err != nil {
		t.Fatal(err)
	}
	ev := NewEv(t, "C18", "replay", "replay of one saved case")
	ev.Case("replay")
	probs, _, err := c18Compare(p)
	if err != nil {
		t.Fatalf("INFRA: %v", err)
	}
	for _, pr := range probs {
		ev.Violate(json.RawMessage(rf.Case), "", "%s vs %s: %s: %s", p.A, p.B, pr.File, pr.Msg)
		t.Errorf("%s: %s", pr.File, pr.Msg)
	}
}
