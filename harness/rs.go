package harness

// rs.go: a serialisable, kind-agnostic description of a rule (RS) and the
// reflection bridge to the library's rule structs. Generators produce RS
// values, replay files store them, oracles read rules back into RS.

import (
	"fmt"
	"reflect"
	"sort"
	"strings"

	"github.com/roddhjav/apparmor.d/pkg/aa"
)

// RS is a flat field map of a rule: keys are the Go field names of the
// library struct (embedded structs flattened), values are string, bool or
// []string. "Paddings" is never stored.
type RS struct {
	Kind string         `json:"kind"`
	F    map[string]any `json:"f"`
}

var ruleFactory = map[string]func() aa.Rule{
	"file":           func() aa.Rule { return &aa.File{} },
	"link":           func() aa.Rule { return &aa.Link{} },
	"capability":     func() aa.Rule { return &aa.Capability{} },
	"network":        func() aa.Rule { return &aa.Network{} },
	"mount":          func() aa.Rule { return &aa.Mount{} },
	"umount":         func() aa.Rule { return &aa.Umount{} },
	"remount":        func() aa.Rule { return &aa.Remount{} },
	"pivot_root":     func() aa.Rule { return &aa.PivotRoot{} },
	"change_profile": func() aa.Rule { return &aa.ChangeProfile{} },
	"signal":         func() aa.Rule { return &aa.Signal{} },
	"ptrace":         func() aa.Rule { return &aa.Ptrace{} },
	"unix":           func() aa.Rule { return &aa.Unix{} },
	"dbus":           func() aa.Rule { return &aa.Dbus{} },
	"mqueue":         func() aa.Rule { return &aa.Mqueue{} },
	"io_uring":       func() aa.Rule { return &aa.IOUring{} },
	"userns":         func() aa.Rule { return &aa.Userns{} },
	"rlimit":         func() aa.Rule { return &aa.Rlimit{} },
	"all":            func() aa.Rule { return &aa.All{} },
	"abi":            func() aa.Rule { return &aa.Abi{} },
	"alias":          func() aa.Rule { return &aa.Alias{} },
	"include":        func() aa.Rule { return &aa.Include{} },
	"variable":       func() aa.Rule { return &aa.Variable{} },
	"comment":        func() aa.Rule { return &aa.Comment{} },
}

// baseFields are the fields of aa.Base; they are annotations, not meaning.
var baseFields = map[string]bool{"Comment": true, "IsLineRule": true, "NoNewPrivs": true,
	"FileInherit": true, "Optional": true, "Paddings": true}

func (r RS) Str(k string) string {
	if v, ok := r.F[k]; ok {
		if s, ok := v.(string); ok {
			return s
		}
	}
	return ""
}

func (r RS) Bool(k string) bool {
	if v, ok := r.F[k]; ok {
		if b, ok := v.(bool); ok {
			return b
		}
	}
	return false
}

func (r RS) List(k string) []string {
	v, ok := r.F[k]
	if !ok || v == nil {
		return nil
	}
	switch l := v.(type) {
	case []string:
		return l
	case []any:
		res := make([]string, 0, len(l))
		for _, x := range l {
			res = append(res, fmt.Sprint(x))
		}
		return res
	}
	return nil
}

func (r RS) Clone() RS {
	n := RS{Kind: r.Kind, F: map[string]any{}}
	for k, v := range r.F {
		switch l := v.(type) {
		case []string:
			n.F[k] = append([]string{}, l...)
		case []any:
			n.F[k] = r.List(k)
		default:
			n.F[k] = v
		}
	}
	return n
}

// ToRule builds the library struct.
func (r RS) ToRule() aa.Rule {
	mk, ok := ruleFactory[r.Kind]
	if !ok {
		panic("unknown kind " + r.Kind)
	}
	rule := mk()
	v := reflect.ValueOf(rule).Elem()
	for k := range r.F {
		f := v.FieldByName(k)
		if !f.IsValid() {
			panic(fmt.Sprintf("kind %s has no field %s", r.Kind, k))
		}
		switch f.Kind() {
		case reflect.String:
			f.SetString(r.Str(k))
		case reflect.Bool:
			f.SetBool(r.Bool(k))
		case reflect.Slice:
			l := r.List(k)
			if l == nil {
				f.Set(reflect.Zero(f.Type()))
			} else {
				f.Set(reflect.ValueOf(append([]string{}, l...)))
			}
		default:
			panic("unsupported field kind for " + k)
		}
	}
	return rule
}

// FromRule flattens a library rule into an RS. Zero values are omitted so
// that nil and empty slices, and absent and false booleans, coincide.
func FromRule(rule aa.Rule) RS {
	res := RS{Kind: rule.Kind().String(), F: map[string]any{}}
	flatten(reflect.ValueOf(rule).Elem(), res.F)
	return res
}

func flatten(v reflect.Value, out map[string]any) {
	t := v.Type()
	for i := 0; i < t.NumField(); i++ {
		sf := t.Field(i)
		f := v.Field(i)
		if sf.Name == "Paddings" {
			continue
		}
		switch f.Kind() {
		case reflect.Struct:
			flatten(f, out)
		case reflect.String:
			if f.String() != "" {
				out[sf.Name] = f.String()
			}
		case reflect.Bool:
			if f.Bool() {
				out[sf.Name] = true
			}
		case reflect.Slice:
			if f.Len() > 0 && f.Type().Elem().Kind() == reflect.String {
				l := make([]string, f.Len())
				for j := range l {
					l[j] = f.Index(j).String()
				}
				out[sf.Name] = l
			}
		case reflect.Map:
			if f.Len() > 0 {
				m := map[string]string{}
				it := f.MapRange()
				for it.Next() {
					m[it.Key().String()] = it.Value().String()
				}
				keys := make([]string, 0, len(m))
				for k := range m {
					keys = append(keys, k)
				}
				sort.Strings(keys)
				l := []string{}
				for _, k := range keys {
					l = append(l, k+"="+m[k])
				}
				out[sf.Name] = l
			}
		}
	}
}

// Canon renders an RS deterministically (sorted keys), optionally without the
// Base annotation fields.
func (r RS) Canon(withBase bool) string {
	keys := make([]string, 0, len(r.F))
	for k := range r.F {
		if !withBase && baseFields[k] {
			continue
		}
		keys = append(keys, k)
	}
	sort.Strings(keys)
	var b strings.Builder
	b.WriteString(r.Kind)
	for _, k := range keys {
		v := r.F[k]
		switch x := v.(type) {
		case string:
			if x == "" {
				continue
			}
			fmt.Fprintf(&b, "|%s=%q", k, x)
		case bool:
			if !x {
				continue
			}
			fmt.Fprintf(&b, "|%s", k)
		default:
			l := r.List(k)
			if len(l) == 0 {
				continue
			}
			fmt.Fprintf(&b, "|%s=%q", k, l)
		}
	}
	return b.String()
}

// SameMeaningFields reports whether two rules are identical on every
// non-Base field.
func SameMeaningFields(a, b aa.Rule) bool {
	if a.Kind() != b.Kind() {
		return false
	}
	return FromRule(a).Canon(false) == FromRule(b).Canon(false)
}

func rulesToRS(rules aa.Rules) []RS {
	res := make([]RS, 0, len(rules))
	for _, r := range rules {
		if r == nil {
			continue
		}
		res = append(res, FromRule(r))
	}
	return res
}

func rsToRules(l []RS) aa.Rules {
	res := make(aa.Rules, 0, len(l))
	for _, r := range l {
		res = append(res, r.ToRule())
	}
	return res
}

func sign(i int) int {
	switch {
	case i < 0:
		return -1
	case i > 0:
		return 1
	}
	return 0
}
