package harness

import (
	"fmt"
	"path/filepath"
	"strings"
	"testing"

	"pgregory.net/rapid"
)

// c02LinesOracle: the host text of s expanded reps times in one process.
func c02LinesOracle(s C07Set, reps int) error {
	text := s.hostText()
	return withProfileSet(s, func(root string) error {
		var first string
		for rep := 0; rep < reps; rep++ {
			out, err := runDirectives(filepath.Join(root, "host"), text)
			if err != nil {
				return fmt.Errorf("directive.Run fails: %v\n%s", err, text)
			}
			if rep == 0 {
				first = out
			} else if out != first {
				return fmt.Errorf("the same file with several directive lines expands differently on a later call in the same process\n--- host\n%s--- first\n%s--- later\n%s", text, first, out)
			}
		}
		if strings.Contains(first, "#aa:") {
			return fmt.Errorf("a directive is still in the output\n%s", first)
		}
		return nil
	})
}

// TestC02_Lines: a host profile with several distinct directive lines (one stack or exec
// directive per named profile, between own rules). The directives of one file are applied
// in the order they stand in the file: the same text expanded several times in one process
// must come out the same every time (an order taken from a map shows as a difference).
func TestC02_Lines(t *testing.T) {
	ev := NewEv(t, "C02", "lines", "generated hosts with 2-3 distinct directive lines ('#aa:stack [X] name' and '#aa:exec [transition] name', one per generated target profile, in a drawn order between 0-3 own rules), expanded 6 times in one process by directive.Run; oracle: the six texts are identical (with d order-sensitive directives an order drawn per call escapes one case with probability d!^-5) and no marker survives. Non-trivial: >= 2 stack lines; distinct by host text")
	rapid.Check(t, func(t *rapid.T) {
		s := genC07Set(t, "stack")
		for len(s.Profiles) < 2 {
			extra := genC07Set(t, "stack").Profiles[0]
			extra.Name = []string{"delta", "epsilon"}[len(s.Profiles)-1]
			s.Profiles = append(s.Profiles, extra)
		}
		var lines []string
		nstack := 0
		for _, p := range s.Profiles {
			switch pick(t, "dkind", []string{"stack", "stack", "stackX", "exec"}) {
			case "stack":
				lines = append(lines, "  #aa:stack "+p.Name)
				nstack++
			case "stackX":
				lines = append(lines, "  #aa:stack X "+p.Name)
				nstack++
			default:
				lines = append(lines, "  #aa:exec "+pick(t, "tr", []string{"", "U ", "P "})+p.Name)
			}
		}
		lines = rapid.Permutation(lines).Draw(t, "lineorder")
		var host []string
		for _, l := range lines {
			if chance(t, "own", 2) {
				host = append(host, pick(t, "hostline", []string{"  /etc/host.conf r,", "  capability net_admin,", "  @{bin}/sh rix,", "  network netlink raw,"}))
			}
			host = append(host, l)
		}
		s.Host, s.Prelude = host, ""
		text := s.hostText()
		key := ""
		if nstack >= 2 {
			key = text
		}
		err := c02LinesOracle(s, 6)
		ev.Case(key, fmt.Sprintf("stacklines:%d", nstack))
		ev.Sample(map[string]any{"host": text})
		if err != nil {
			if strings.HasPrefix(err.Error(), "INFRA") {
				t.Fatalf("%v", err)
			}
			if Explore(firstLine(err), err) {
				return
			}
			t.Fatalf("%s", ev.Fail(s, "", "%v", err))
		}
	})
	ExploreReport(t)
}
