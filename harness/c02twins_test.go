package harness

// C02, twins: "the text produced for one profile depends only on that profile, the profiles it
// names and the configuration, not on which other profiles were processed earlier in the same
// process". The real binary processes files in name order, so the same profile written twice
// under a name that sorts before and a name that sorts after everything it names (and after a
// profile that appends to a built-in variable) is processed in two different histories of one
// process: the two outputs must be equal up to the name.

import (
	"encoding/json"
	"fmt"
	"os"
	"path/filepath"
	"strings"
	"testing"

	"pgregory.net/rapid"
)

type C02Twins struct {
	Tree C04Tree `json:"tree"`
	Set  C07Set  `json:"set"`
	Mode string  `json:"mode"`
}

const twinDir = "apparmor.d/groups/twins/"

func twinUser(name string) string {
	return "abi <abi/4.0>,\n\ninclude <tunables/global>\n\n@{exec_path} = @{lib}/" + name + "/helper @{bin}/" + name + " /opt/@{multiarch}/" + name + "\nprofile " + name +
		" @{exec_path} {\n  include <abstractions/base>\n\n  @{exec_path} mr,\n  @{lib}/** r,\n\n  include if exists <local/" + name + ">\n}\n"
}

func genC02Twins(t *rapid.T) C02Twins {
	var c C02Twins
	c.Tree = genC04Tree(t)
	c.Mode = pick(t, "mode", allModes)
	c.Set = genC07Set(t, pick(t, "kind", []string{"stack", "stack", "exec"}))
	c.Set.Prelude = ""
	// a target may hold directives of its own: the host that is processed before the target
	// stacks them unexpanded, the one processed after it stacks what they were expanded to
	if c.Set.Kind == "stack" {
		for i := range c.Set.Profiles {
			if chance(t, "target-directive", 2) {
				pool := []string{"  #aa:dbus own bus=session name=org.twin.T", "  #aa:dbus talk bus=system name=org.twin.U label=unconfined", "  #aa:exec mmm-append"}
				if i+1 < len(c.Set.Profiles) {
					// a stacked profile that stacks another one itself (no cycle: only later targets)
					pool = append(pool, "  #aa:stack "+c.Set.Profiles[i+1].Name, "  #aa:stack X "+c.Set.Profiles[i+1].Name)
				}
				d := pick(t, "tdir", pool)
				at := rapid.IntRange(0, len(c.Set.Profiles[i].Body)).Draw(t, "tdirat")
				body := append([]string{}, c.Set.Profiles[i].Body[:at]...)
				body = append(body, d)
				c.Set.Profiles[i].Body = append(body, c.Set.Profiles[i].Body[at:]...)
			}
		}
	}
	for _, p := range c.Set.Profiles {
		c.Tree.Files[twinDir+p.Name] = p.Text()
	}
	for _, n := range []string{"aaa-host", "zzz-host"} {
		c.Tree.Files[twinDir+n] = C07Profile{Name: n, Exec: []string{"@{bin}/" + n}, Body: c.Set.Host}.Text()
	}
	// a profile in the middle that appends to variables of the built-in table
	app := "abi <abi/4.0>,\n\ninclude <tunables/global>\n\n"
	for _, v := range subsetOrdered(t, "appended", []string{"lib", "bin", "multiarch"}, 1, 3) {
		app += "@{" + v + "} += /opt/acme/" + v + "\n"
	}
	app += "@{exec_path} = @{lib}/acme @{bin}/acme\nprofile mmm-append @{exec_path} {\n  include <abstractions/base>\n\n  @{exec_path} mr,\n\n  include if exists <local/mmm-append>\n}\n"
	c.Tree.Files[twinDir+"mmm-append"] = app
	for _, n := range []string{"aaa-user", "zzz-user"} {
		c.Tree.Files[twinDir+n] = twinUser(n)
	}
	return c
}

func c02TwinsOracle(c C02Twins) error {
	src, err := writeSourceTree(c.Tree.Files)
	defer os.RemoveAll(src)
	if err != nil {
		return fmt.Errorf("INFRA: %v", err)
	}
	dir, err := newScratchTree(src)
	if err != nil {
		return fmt.Errorf("INFRA: %v", err)
	}
	cfg := c.Tree.Cfg
	cfg.Mode = c.Mode
	b := &Build{Dir: dir, Cfg: cfg}
	defer b.Clean()
	if log, err := RunPrebuild(dir, cfg, false); err != nil {
		return fmt.Errorf("the build fails on a valid tree (%s): %v: %s", cfg, err, tail(strings.TrimSpace(log), 600))
	}
	for _, pair := range [][2]string{{"aaa-host", "zzz-host"}, {"aaa-user", "zzz-user"}} {
		a, z := readFile(filepath.Join(b.Apparmord(), pair[0])), readFile(filepath.Join(b.Apparmord(), pair[1]))
		if a == "" || z == "" {
			return fmt.Errorf("INFRA: %s / %s missing from the build (%s)", pair[0], pair[1], cfg)
		}
		na, nz := strings.ReplaceAll(a, pair[0], "NAME"), strings.ReplaceAll(z, pair[1], "NAME")
		if na != nz {
			return fmt.Errorf("%s: the same profile under a name processed before (%s) and after (%s) the profiles it names and an appending profile is built differently:\n%s--- %s\n%s--- %s\n%s", cfg, pair[0], pair[1], firstDiff(na, nz), pair[0], a, pair[1], z)
		}
	}
	return nil
}

func firstDiff(a, b string) string {
	la, lb := strings.Split(a, "\n"), strings.Split(b, "\n")
	for i := 0; i < len(la) || i < len(lb); i++ {
		x, y := "<end>", "<end>"
		if i < len(la) {
			x = la[i]
		}
		if i < len(lb) {
			y = lb[i]
		}
		if x != y {
			return fmt.Sprintf("first difference at line %d: %q vs %q\n", i+1, x, y)
		}
	}
	return ""
}

func TestC02_Twins(t *testing.T) {
	if err := haveBins(); err != nil {
		t.Fatalf("INFRA: %v", err)
	}
	ev := NewEv(t, "C02", "twins", "generated source trees (as in C04's generated stage) with an extra group holding 1-3 target profiles (bodies with exec transitions, userns, mqueue, sub-rules that builders rewrite), a host with a generated stack [X] / exec directive written twice under names that sort before and after every target, a profile that appends to 1-3 variables of the built-in table, and a profile using those variables written twice around it; one real build (drawn from 60 configurations x 3 modes); oracle: the two copies are byte-identical up to their name. Non-trivial: every case (two histories of one process); distinct by tree")
	rapid.Check(t, func(t *rapid.T) {
		c := genC02Twins(t)
		data, _ := json.Marshal(c.Set)
		ev.Case(c.Tree.Cfg.String()+c.Mode+string(data), "kind:"+c.Set.Kind, "dist:"+c.Tree.Cfg.Dist, fmt.Sprintf("abi:%d", c.Tree.Cfg.ABI), fmt.Sprintf("full:%v", c.Tree.Cfg.Full), "mode:"+c.Mode)
		ev.Sample(map[string]any{"config": c.Tree.Cfg.String(), "mode": c.Mode, "directive": c.Set.Args, "kind": c.Set.Kind})
		if err := c02TwinsOracle(c); err != nil {
			if strings.HasPrefix(err.Error(), "INFRA") {
				t.Fatalf("%v", err)
			}
			t.Fatalf("%s", ev.Fail(c, "", "%v", err))
		}
	})
}
