package harness

// C04, generated source trees: the same model and comparison as the shipped
// stage, over small synthetic trees whose ignore lists, manifests, overwrite
// list, overlays and drop-ins are drawn by rapid. The shipped tree fixes one
// point of that space (one set of manifests); a change to the prepare tasks
// that happens to agree with the model on exactly those manifests is only
// visible here.

import (
	"encoding/json"
	"fmt"
	"os"
	"path/filepath"
	"sort"
	"strings"
	"sync/atomic"
	"testing"

	"pgregory.net/rapid"
)

type C04Tree struct {
	Files   map[string]string `json:"files"` // path below the source root -> content
	Cfg     Config            `json:"config"`
	Pollute []string          `json:"pollute"`
}

var c04Groups = []string{"apps", "app", "gnome", "kde", "steam"}
var c04PDirs = []string{"profiles-a-f", "profiles-g-l", "profiles-m-r", "profiles-s-z"}
var c04Names = []string{"foo", "foo-bar", "foobar", "bar", "baz", "qux", "wg", "wget", "child-open", "a.b", "man", "systemd-x", "zed", "Foo", "fo"}

func c04Profile(t *rapid.T, name string) string {
	var b strings.Builder
	if chance(t, "lead-comment", 2) {
		b.WriteString("# apparmor.d - " + name + "\n\n")
	}
	b.WriteString("abi <abi/4.0>,\n\ninclude <tunables/global>\n\n@{exec_path} = @{bin}/" + name + "\n")
	fl := pick(t, "hflags", []string{"", "", " flags=(complain)", " flags=(attach_disconnected)", " flags=(attach_disconnected,complain)"})
	b.WriteString("profile " + name + " @{exec_path}" + fl + " {\n  include <abstractions/base>\n\n  @{exec_path} mr,\n")
	if chance(t, "braces-rule", 3) {
		b.WriteString("  /usr/share/{a,b}/** r,\n")
	}
	if chance(t, "sub", 3) {
		sfl := pick(t, "sflags", []string{"", " flags=(complain)", " flags=(attach_disconnected)"})
		b.WriteString("\n  profile sub" + sfl + " {\n    include <abstractions/base>\n\n    /etc/x r,\n  }\n")
	}
	b.WriteString("\n  include if exists <local/" + name + ">\n}\n")
	return b.String()
}

func genC04Tree(t *rapid.T) C04Tree {
	tr := C04Tree{Files: map[string]string{}}
	all := c04Configs()
	tr.Cfg = all[rapid.IntRange(0, len(all)-1).Draw(t, "config")]
	dist := tr.Cfg.Dist
	put := func(p, c string) { tr.Files[p] = c }

	// profile directories
	var dirs []string
	for _, g := range subsetOrdered(t, "groups", c04Groups, 1, 3) {
		dirs = append(dirs, "groups/"+g)
	}
	for _, d := range subsetOrdered(t, "pdirs", c04PDirs, 1, 2) {
		dirs = append(dirs, d)
	}
	names := subsetOrdered(t, "names", c04Names, 3, 10)
	where := map[string][]string{} // name -> directories holding it
	for _, n := range names {
		d := dirs[rapid.IntRange(0, len(dirs)-1).Draw(t, "dir-of-"+n)]
		where[n] = []string{d}
		put("apparmor.d/"+d+"/"+n, c04Profile(t, n))
	}
	// the same name in two directories is only a valid tree when an ignore list of
	// this configuration drops it by name
	var mainIgnore, distIgnore []string
	for _, n := range names {
		if len(dirs) > 1 && chance(t, "dup-"+n, 6) {
			for _, d := range dirs {
				if d != where[n][0] {
					where[n] = append(where[n], d)
					put("apparmor.d/"+d+"/"+n, c04Profile(t, n))
					break
				}
			}
			if chance(t, "dup-in-dist", 2) {
				distIgnore = append(distIgnore, n)
			} else {
				mainIgnore = append(mainIgnore, n)
			}
		}
	}
	// the rest of the policy tree
	put("apparmor.d/tunables/global", "include <tunables/multiarch.d>\n")
	put("apparmor.d/tunables/multiarch.d/profiles", "# profile names\n@{p_systemd}=unconfined\n@{p_systemd_user}=unconfined\n@{p_foo}=foo\n")
	put("apparmor.d/tunables/multiarch.d/base", "@{bin}=/{,usr/}bin\n")
	put("apparmor.d/abstractions/gstreamer", "  abi <abi/4.0>,\n\n  @{lib}/gstreamer-1.0/gst-plugin-scanner rix,\n  /usr/share/gstreamer/** r,\n  @{lib}/gst-plugin-scanner Px,\n")
	for _, a := range subsetOrdered(t, "abstractions", []string{"base-strict", "devices-usb", "devices-usb-read", "nameservice-strict", "app/open", "common/apt", "foo-abs"}, 1, 5) {
		put("apparmor.d/abstractions/"+a, "  abi <abi/4.0>,\n\n  /etc/"+a+" r,\n")
	}
	if chance(t, "mappings", 2) {
		put("apparmor.d/mappings/sudo", "/usr/bin/sudo {\n}\n")
	}
	// full system policy profiles: always ignored by path, installed by --full
	for _, n := range subsetOrdered(t, "full", []string{"systemd", "systemd-user", "default", "bwrap"}, 1, 3) {
		put("apparmor.d/groups/_full/"+n, c04Profile(t, n))
	}
	mainIgnore = append(mainIgnore, "apparmor.d/groups/_full")

	// ignore lists
	otherDist := allDists[(indexOf(allDists, dist)+1)%len(allDists)]
	var otherIgnore []string
	candidates := []string{}
	for _, n := range names {
		candidates = append(candidates, n)
	}
	for _, d := range dirs {
		candidates = append(candidates, "apparmor.d/"+d)
		candidates = append(candidates, "apparmor.d/"+d[:len(d)-1]) // a prefix of a directory name: names nothing
	}
	for _, n := range names {
		candidates = append(candidates, "apparmor.d/"+where[n][0]+"/"+n)
	}
	candidates = append(candidates, "apparmor.d/abstractions/foo-abs", "apparmor.d/abstractions/app", "share/zsh", "share/nothing", "nothing-of-that-name", "fo", "oo")
	for _, c := range subsetOrdered(t, "ignored", candidates, 0, 5) {
		switch rapid.IntRange(0, 2).Draw(t, "list-of-"+c) {
		case 0:
			mainIgnore = append(mainIgnore, c)
		case 1:
			distIgnore = append(distIgnore, c)
		default:
			otherIgnore = append(otherIgnore, c)
		}
	}
	manifestText := func(label string, lines []string) string {
		var b strings.Builder
		b.WriteString("# " + label + "\n# File format: one entry by line\n\n")
		for i, l := range lines {
			if chance(t, fmt.Sprintf("%s-blank-%d", label, i), 4) {
				b.WriteString("\n# a section\n")
			}
			if chance(t, fmt.Sprintf("%s-trail-%d", label, i), 5) {
				l += " # why"
			}
			b.WriteString(l + "\n")
		}
		if chance(t, label+"-end-comment", 4) {
			b.WriteString("\n# end")
		}
		return b.String()
	}
	put("dists/ignore/main.ignore", manifestText("main ignore", mainIgnore))
	if len(distIgnore) > 0 || chance(t, "empty-dist-ignore", 2) {
		put("dists/ignore/"+dist+".ignore", manifestText(dist+" ignore", distIgnore))
	}
	if len(otherIgnore) > 0 {
		put("dists/ignore/"+otherDist+".ignore", manifestText(otherDist+" ignore", otherIgnore))
	}

	// flags manifests
	flagSets := []string{"complain", "attach_disconnected", "attach_disconnected,complain", "attach_disconnected,mediate_deleted,complain", ""}
	mk := func(label string) []string {
		var lines []string
		pool := append(append([]string{}, names...), "no-such-profile", "systemd", "default")
		for _, n := range subsetOrdered(t, label+"-flagged", pool, 0, 5) {
			f := pick(t, label+"-flags-"+n, flagSets)
			if f == "" {
				lines = append(lines, n)
			} else {
				lines = append(lines, n+" "+f)
			}
		}
		return lines
	}
	put("dists/flags/main.flags", manifestText("main flags", mk("main")))
	if chance(t, "dist-flags", 2) {
		put("dists/flags/"+dist+".flags", manifestText(dist+" flags", mk("dist")))
	}
	if chance(t, "other-flags", 3) {
		put("dists/flags/"+otherDist+".flags", manifestText(otherDist+" flags", mk("other")))
	}

	// overwrite list (always present: the task requires the file)
	put("dists/overwrite", manifestText("overwrite", subsetOrdered(t, "overwritten", append(append([]string{}, names...), "not-shipped-here"), 0, 4)))

	// debian overlay
	for _, a := range subsetOrdered(t, "overlay", []string{"abstractions/deb-only", "abstractions/deb.d/x", "tunables/deb"}, 0, 2) {
		put("dists/ubuntu/"+a, "  # overlay "+a+"\n")
	}
	if _, ok := tr.Files["dists/ubuntu/abstractions/deb-only"]; !ok {
		put("dists/ubuntu/abstractions/always", "  # overlay\n")
	}

	// systemd drop-ins and shared files
	for _, sub := range []string{"default", "early", "full"} {
		for _, u := range subsetOrdered(t, "units-"+sub, []string{"system/a.service.d/apparmor.conf", "system/b.service.d/apparmor.conf", "user/c.service.d/apparmor.conf", "system/" + sub + ".service.d/apparmor.conf"}, 1, 3) {
			put("systemd/"+sub+"/"+u, "[Service]\nAppArmorProfile="+sub+"-"+filepath.Base(filepath.Dir(u))+"\n")
		}
	}
	put("share/zsh/_aa-log", "#compdef aa-log\n")
	put("share/man/aa-log.8", ".TH aa-log\n")

	tr.Pollute = subsetOrdered(t, "pollute", []string{"stale-profile", "junk-dir", "systemd-junk", "dangling-symlink", "junk-file", "share-junk", "hidden-file", "hidden-dir"}, 0, 3)
	return tr
}

func indexOf(l []string, s string) int {
	for i, x := range l {
		if x == s {
			return i
		}
	}
	return 0
}

var c04Seq int64

// writeSourceTree writes a generated source tree into a fresh scratch directory.
func writeSourceTree(files map[string]string) (string, error) {
	n := atomic.AddInt64(&c04Seq, 1)
	src := filepath.Join(refScratch(), fmt.Sprintf("c04src-%d-%d", os.Getpid(), n))
	var rels []string
	for rel := range files {
		rels = append(rels, rel)
	}
	sort.Strings(rels)
	for _, rel := range rels {
		p := filepath.Join(src, rel)
		if err := os.MkdirAll(filepath.Dir(p), 0o755); err != nil {
			return src, err
		}
		if err := os.WriteFile(p, []byte(files[rel]), 0o644); err != nil {
			return src, err
		}
	}
	return src, nil
}

// c04Judge writes the tree, runs the real prepare stage over it and compares with the model.
func c04Judge(tr C04Tree) (problems []string, applied map[string]int, err error) {
	src, err := writeSourceTree(tr.Files)
	defer os.RemoveAll(src)
	if err != nil {
		return nil, nil, err
	}
	m, err := modelPrepare(src, tr.Cfg)
	if err != nil {
		return nil, nil, err
	}
	dir, err := newScratchTree(src)
	if err != nil {
		return nil, nil, err
	}
	b := &Build{Dir: dir, Cfg: tr.Cfg}
	defer b.Clean()
	os.MkdirAll(b.Root(), 0o755)
	for i, k := range tr.Pollute {
		pollute(b.Root(), k, i)
	}
	if log, err := RunPrebuild(dir, tr.Cfg, true); err != nil {
		return []string{fmt.Sprintf("the prepare stage fails on a valid tree: %v: %s", err, tail(strings.TrimSpace(log), 300))}, m.Applied, nil
	}
	return comparePrepare(b, src, m), m.Applied, nil
}

func TestC04_Generated(t *testing.T) {
	if err := haveBins(); err != nil {
		t.Fatalf("INFRA: %v", err)
	}
	ev := NewEv(t, "C04", "generated", "generated source trees (3-12 profiles over 2-5 group / profiles-x-y directories incl. the same name in two directories dropped by an ignore list, abstractions incl. the ones upstreamed in 4.1, tunables, the full-system-policy group, a debian overlay, drop-ins, shared files; ignore lists for the common, this and another distribution with names, directory paths, file paths, prefixes of directory names, entries outside the policy tree and entries naming nothing; flags manifests with and without flags and for absent profiles; overwrite list with shipped, ignored and absent names; comments, blank lines and trailing comments in every manifest) x one of the 60 configurations x 0-3 kinds of stale content in the build directory; the real prepare stage runs over the tree; oracle: the same independent model as the shipped stage, both directions. Non-trivial: a by-name ignore and a manifest rewrite applied; distinct by tree + configuration")
	rapid.Check(t, func(t *rapid.T) {
		tr := genC04Tree(t)
		problems, applied, err := c04Judge(tr)
		if err != nil {
			t.Fatalf("INFRA: %v", err)
		}
		key := ""
		if applied["name-ignore"] > 0 && applied["manifest"] > 0 {
			data, _ := json.Marshal(tr)
			key = string(data)
		}
		cls := []string{"dist:" + tr.Cfg.Dist, fmt.Sprintf("av:%d/%s", tr.Cfg.ABI, tr.Cfg.Version), fmt.Sprintf("full:%v", tr.Cfg.Full), fmt.Sprintf("pollutions:%d", len(tr.Pollute))}
		for k, v := range applied {
			if v > 0 {
				cls = append(cls, "applied:"+k)
			}
		}
		ev.Case(key, cls...)
		ev.Sample(map[string]any{"config": tr.Cfg.String(), "files": len(tr.Files), "applied": applied, "ignore": tr.Files["dists/ignore/main.ignore"]})
		if len(problems) > 0 {
			t.Fatalf("%s", ev.Fail(tr, "", "%s: %s", tr.Cfg, strings.Join(problems, "; ")))
		}
	})
}
