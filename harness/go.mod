module verifharness

go 1.23.0

require (
	github.com/roddhjav/apparmor.d v0.0.0
	pgregory.net/rapid v1.3.0
)

replace github.com/roddhjav/apparmor.d => /repo
