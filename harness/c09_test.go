package harness

// C09 — rule text round-trips through the printer and the parser.

import (
	"encoding/json"
	"fmt"
	"os"
	"sort"
	"strings"
	"testing"

	"github.com/roddhjav/apparmor.d/pkg/aa"
	"pgregory.net/rapid"
)

// resetParser puts the library's package-level parser state in its initial
// condition (a failed preamble parse leaves an "in header" latch set).
func resetParser() {
	aa.IndentationLevel = 0
	f := &aa.AppArmorProfileFile{}
	_, _ = f.Parse("")
}

var pathPrefixes = []string{"/", "/", "@{HOME}/", "@{run}/", "/usr/", "@{bin}/", "@{lib}/", "/etc/", "@{PROC}/", "@{user_config_dirs}/"}
var pathComps = []string{"foo", "Foo", "bar", "*", "**", "{a,b}", "{,x/}y", "[0-9]", "[^a]*", "@{int}", "a#b", "#@{int}", "a+b",
	"a:b", "a@b", "a,b", ".cache", "é", "a b", "x{a,b{c,d}}", "lib*.so*", "@{uid}", "a=b", "a-b_c.d", "{a,b}/", "mysqld_safe", "unsafe", "owner", "deny"}

func genPath(t *rapid.T, label string) string {
	p := pick(t, label+"pre", pathPrefixes)
	n := rapid.IntRange(0, 3).Draw(t, label+"n")
	var comps []string
	for i := 0; i < n; i++ {
		comps = append(comps, pick(t, label+"comp", pathComps))
	}
	p += strings.Join(comps, "/")
	if n > 0 && chance(t, label+"slash", 4) && !strings.HasSuffix(p, "/") {
		p += "/"
	}
	return quoteIfSpace(p)
}

func genPaths(t *rapid.T, label string, n int) []string {
	res := make([]string, n)
	for i := range res {
		res[i] = genPath(t, label)
	}
	return res
}

// WideVocab draws a fresh vocabulary of composed values for one case.
func WideVocab(t *rapid.T) Vocab {
	return Vocab{
		Paths:   genPaths(t, "p", 4),
		Names:   []string{"foo", "Foo", "foo//bar", "@{p_systemd}", "unconfined", "foo-bar.baz", "/usr/bin/foo", "foo//&bar", `"foo bar"`, "@{profile_name}", "gnome-*", "{a,b}"},
		Addrs:   []string{"none", "@/tmp/a", `"@/tmp/.X11-unix/X0"`, "@/tmp/dbus-*", `"@/tmp/a b"`, "/run/x", "@@{hex16}/bus/x"},
		FsTypes: []string{"tmpfs", "proc", "ext4", "fuse.*", "{tmpfs,ramfs}", "overlay"},
		DbusN:   []string{"org.a.B", "org.freedesktop.DBus", "org.a.B{,.*}", `"{@{busname},org.a.B}"`, ":1.42", "@{busname}", "org.a.*"},
		DbusP:   []string{"/org/a/B", "/org/a/B{,/**}", "/", `"/org/a b"`, "/org/freedesktop/DBus"},
		Members: []string{"Get", "{Get,Set}", "Introspect", "Get*", `"{Get,GetAll}"`},
	}
}

var setLikeLists = map[string]bool{"Access": true, "Set": true, "Options": true, "Names": true, "Flags": true}

// canonForRoundTrip: like Canon(true) but set-like lists are order-free.
func canonForRoundTrip(r RS) string {
	c := r.Clone()
	if c.Str("AccessType") == "allow" {
		delete(c.F, "AccessType") // 'allow' is the default qualifier: same rule
	}
	// The Base annotations are an internal encoding of the trailing comment:
	// what must survive is the comment text as rendered.
	ct := ""
	if c.Bool("FileInherit") || c.Bool("NoNewPrivs") || c.Bool("Optional") || c.Str("Comment") != "" {
		ct = "#"
		if c.Bool("FileInherit") {
			ct += " file_inherit"
		}
		if c.Bool("NoNewPrivs") {
			ct += " no new privs"
		}
		if c.Bool("Optional") {
			ct += " optional:"
		}
		ct += c.Str("Comment")
	}
	for _, k := range []string{"FileInherit", "NoNewPrivs", "Optional", "Comment", "IsLineRule"} {
		delete(c.F, k)
	}
	if ct != "" {
		c.F["CommentText"] = ct
	}
	for k := range c.F {
		if setLikeLists[k] {
			l := append([]string{}, c.List(k)...)
			sort.Strings(l)
			c.F[k] = l
		}
	}
	return c.Canon(true)
}

type C09Rule struct {
	R RS `json:"rule"`
}

func safeString(r aa.Rule) (s string, err error) {
	defer func() {
		if p := recover(); p != nil {
			err = fmt.Errorf("String panicked: %v", p)
		}
	}()
	return r.String(), nil
}

func safeParseRules(text string) (res aa.ParaRules, err error) {
	defer func() {
		if p := recover(); p != nil {
			err = fmt.Errorf("ParseRules panicked: %v", p)
		}
	}()
	res, _, err = aa.ParseRules(text)
	return res, err
}

func c09RuleOracle(c C09Rule) (string, error) {
	resetParser()
	rule := c.R.ToRule()
	text, err := safeString(rule)
	if err != nil {
		return "", err
	}
	para, err := safeParseRules(text + "\n\n")
	if err != nil {
		return text, fmt.Errorf("printed rule does not parse: %v\n  text: %q", err, text)
	}
	flat := para.Flatten()
	if len(flat) != 1 || flat[0] == nil {
		return text, fmt.Errorf("printed rule parses into %d rules\n  text: %q\n  rule: %s", len(flat), text, c.R.Canon(true))
	}
	back := FromRule(flat[0])
	if canonForRoundTrip(back) != canonForRoundTrip(c.R) {
		return text, fmt.Errorf("parse(print(r)) != r\n  rule  : %s\n  text  : %q\n  parsed: %s", canonForRoundTrip(c.R), text, canonForRoundTrip(back))
	}
	resetParser()
	text2, err := safeString(flat[0])
	if err != nil {
		return text, err
	}
	if text2 != text {
		return text, fmt.Errorf("print(parse(print(r))) != print(r)\n  first : %q\n  second: %q", text, text2)
	}
	return text, nil
}

func c09Nontrivial(r RS, text string) string {
	opt := 0
	for k, v := range r.F {
		if k == "Path" || k == "Access" {
			continue
		}
		switch x := v.(type) {
		case string:
			if x != "" {
				opt++
			}
		case bool:
			if x {
				opt++
			}
		default:
			if len(r.List(k)) > 0 {
				opt++
			}
		}
	}
	if opt >= 2 || strings.Contains(text, `"`) || strings.Contains(text, "#") {
		return r.Canon(true)
	}
	return ""
}

// genC09Rule: struct-level generator (A) over every kind.
func genC09Rule(t *rapid.T) RS {
	kind := pick(t, "kind", allKinds)
	v := WideVocab(t)
	r := GenRule(t, kind, GenOpt{V: v, Comments: false})
	switch kind {
	case "network":
		if chance(t, "nodomain", 4) {
			delete(r.F, "Domain")
		}
	case "unix":
		// Attr and Opt are outside the domain: the library never prints them and
		// AppArmor rejects them ("invalid conditional"), so no valid rule has them.
		setIf(r.F, "Protocol", maybe(t, "uproto", []string{"0", "1"}))
	}
	if kind == "network" && r.Str("Domain") == "" && r.Str("Type") == "packet" {
		// "network packet," is the packet *family* in AppArmor's grammar: a rule with
		// type packet and no family cannot be written down, so it is not a valid rule.
		r.F["Type"] = "raw"
	}
	// Base annotations: trailing comment and the three recognised prefixes
	if chance(t, "comment?", 3) {
		r.F["Comment"] = pick(t, "comment", []string{" a comment", " x", " see #12", " TODO: check, this", " with (parens) and {braces} x", " a = b", "", "nospace", " \"quoted\" text", " trailing space "})
		// any combination of the three recognised prefixes
		if chance(t, "file_inherit", 4) {
			r.F["FileInherit"] = true
		}
		if chance(t, "no_new_privs", 4) {
			r.F["NoNewPrivs"] = true
		}
		if chance(t, "optional", 4) {
			r.F["Optional"] = true
		}
	}
	return r
}

func TestC09_Rules(t *testing.T) {
	ev := NewEv(t, "C09", "rules", "(A) one rule struct of any kind with all combinations of optional fields, qualifiers, composed AARE paths (variables, nested alternations, classes, '#', '+', ':', '@', ',' inside, quoted with spaces) and trailing comments, in constructor-canonical form; oracle: parse(print(r)) == r on every field (set-like lists order-free, paddings ignored) and print(parse(print(r))) == print(r). Non-trivial: >= 2 optional fields, or a quoted value, or a comment; distinct by canonical field text")
	rapid.Check(t, func(t *rapid.T) {
		c := C09Rule{R: genC09Rule(t)}
		if key := c09Excluded(c.R); key != "" {
			ev.ExcludedKnown(key)
			ev.Case("", "excluded")
			return
		}
		text, err := c09RuleOracle(c)
		ev.Case(c09Nontrivial(c.R, text), "kind:"+c.R.Kind)
		ev.Sample(map[string]any{"rule": c.R, "text": text})
		if err != nil {
			if Explore(c.R.Kind+": "+firstLine(err), err) {
				return
			}
			t.Fatalf("%s", ev.Fail(c, "", "%v", err))
		}
	})
	ExploreReport(t)
}

func firstLine(err error) string {
	s := err.Error()
	if i := strings.Index(s, "\n"); i >= 0 {
		s = s[:i]
	}
	if len(s) > 60 {
		s = s[:60]
	}
	return s
}

func c09Excluded(r RS) string {
	return ""
}

func TestC09_Replay(t *testing.T) {
	path := os.Getenv("VERIF_REPLAY")
	if path == "" {
		t.Skip("no VERIF_REPLAY")
	}
	rf, err := LoadReplay(path, nil)
	if err != nil {
		t.Fatal(err)
	}
	ev := NewEv(t, "C09", "replay", "replay of one saved case")
	ev.Case("replay")
	var oerr error
	switch rf.Sub {
	case "rules":
		var c C09Rule
		json.Unmarshal(rf.Case, &c)
		_, oerr = c09RuleOracle(c)
	case "text":
		var c C09Text
		json.Unmarshal(rf.Case, &c)
		_, oerr = c09TextOracle(c)
	case "blocks":
		var c C09Block
		json.Unmarshal(rf.Case, &c)
		_, oerr = c09BlockOracle(c)
	case "files":
		var c C09File
		json.Unmarshal(rf.Case, &c)
		_, oerr = c09FileOracle(c)
	default:
		t.Fatalf("unknown sub %q", rf.Sub)
	}
	if oerr != nil {
		ev.Violate(json.RawMessage(rf.Case), "", "%v", oerr)
		t.Fatalf("%v", oerr)
	}
}

// ---------------------------------------------------------------------------
// (B) surface syntax: the same rule written in the alternative spellings that
// apparmor.d(5) allows. Only parser-reachable values are demanded: the text is
// parsed first, and what the parser produced must then round-trip.

func surfaceList(t *rapid.T, label string, l []string) string {
	if len(l) == 1 && rapid.Bool().Draw(t, label+"bare") {
		return l[0]
	}
	switch rapid.IntRange(0, 2).Draw(t, label+"style") {
	case 0:
		return "(" + strings.Join(l, " ") + ")"
	case 1:
		return "(" + strings.Join(l, ", ") + ")"
	default:
		return "(" + strings.Join(l, ",") + ")"
	}
}

func sp(t *rapid.T) string {
	return strings.Repeat(" ", rapid.IntRange(1, 3).Draw(t, "sp"))
}

// surfacePrint renders r in a randomly chosen valid spelling.
func surfacePrint(t *rapid.T, r RS) string {
	var b []string
	if r.Bool("Audit") {
		b = append(b, "audit")
	}
	if r.Str("AccessType") == "deny" {
		b = append(b, "deny")
	} else if r.Kind != "rlimit" && r.Kind != "all" && chance(t, "allow", 6) {
		b = append(b, "allow")
	}
	kv := func(k, v string) {
		if v != "" {
			b = append(b, k+"="+v)
		}
	}
	switch r.Kind {
	case "file":
		if r.Bool("Owner") {
			b = append(b, "owner")
		}
		if chance(t, "filekw", 5) {
			b = append(b, "file")
		}
		b = append(b, r.Str("Path"), strings.Join(r.List("Access"), ""))
		if r.Str("Target") != "" {
			b = append(b, "->", r.Str("Target"))
		}
	case "link":
		if r.Bool("Owner") {
			b = append(b, "owner")
		}
		b = append(b, "link")
		if r.Bool("Subset") {
			b = append(b, "subset")
		}
		b = append(b, r.Str("Path"), "->", r.Str("Target"))
	case "capability":
		b = append(b, "capability")
		b = append(b, r.List("Names")...)
	case "network":
		b = append(b, "network")
		for _, k := range []string{"Domain", "Type", "Protocol"} {
			if r.Str(k) != "" {
				b = append(b, r.Str(k))
			}
		}
	case "mount", "umount", "remount":
		b = append(b, r.Kind)
		kv("fstype", r.Str("FsType"))
		if l := r.List("Options"); len(l) > 0 {
			b = append(b, "options="+surfaceList(t, "opt", l))
		}
		if r.Str("Source") != "" {
			b = append(b, r.Str("Source"))
		}
		if r.Str("MountPoint") != "" {
			if r.Kind == "mount" {
				b = append(b, "->")
			}
			b = append(b, r.Str("MountPoint"))
		}
	case "pivot_root":
		b = append(b, "pivot_root")
		kv("oldroot", r.Str("OldRoot"))
		if r.Str("NewRoot") != "" {
			b = append(b, r.Str("NewRoot"))
		}
		if r.Str("TargetProfile") != "" {
			b = append(b, "->", r.Str("TargetProfile"))
		}
	case "change_profile":
		b = append(b, "change_profile")
		for _, k := range []string{"ExecMode", "Exec"} {
			if r.Str(k) != "" {
				b = append(b, r.Str(k))
			}
		}
		if r.Str("ProfileName") != "" {
			b = append(b, "->", r.Str("ProfileName"))
		}
	case "signal":
		b = append(b, "signal")
		if l := r.List("Access"); len(l) > 0 {
			b = append(b, surfaceList(t, "acc", l))
		}
		if l := r.List("Set"); len(l) > 0 {
			b = append(b, "set="+surfaceList(t, "set", l))
		}
		kv("peer", r.Str("Peer"))
	case "ptrace":
		b = append(b, "ptrace")
		if l := r.List("Access"); len(l) > 0 {
			b = append(b, surfaceList(t, "acc", l))
		}
		kv("peer", r.Str("Peer"))
	case "unix":
		b = append(b, "unix")
		if l := r.List("Access"); len(l) > 0 {
			b = append(b, surfaceList(t, "acc", l))
		}
		kv("type", r.Str("Type"))
		kv("protocol", r.Str("Protocol"))
		kv("addr", r.Str("Address"))
		kv("label", r.Str("Label"))
		var peer []string
		if r.Str("PeerLabel") != "" {
			peer = append(peer, "label="+r.Str("PeerLabel"))
		}
		if r.Str("PeerAddr") != "" {
			peer = append(peer, "addr="+r.Str("PeerAddr"))
		}
		if len(peer) == 2 && rapid.Bool().Draw(t, "peerswap") {
			peer[0], peer[1] = peer[1], peer[0]
		}
		if len(peer) > 0 {
			sep := ", "
			if rapid.Bool().Draw(t, "peersep") {
				sep = " "
			}
			b = append(b, "peer=("+strings.Join(peer, sep)+")")
		}
	case "dbus":
		b = append(b, "dbus")
		if l := r.List("Access"); len(l) > 0 {
			b = append(b, surfaceList(t, "acc", l))
		}
		kv("bus", r.Str("Bus"))
		kv("name", r.Str("Name"))
		kv("path", r.Str("Path"))
		kv("interface", r.Str("Interface"))
		kv("member", r.Str("Member"))
		var peer []string
		if r.Str("PeerName") != "" {
			peer = append(peer, "name="+r.Str("PeerName"))
		}
		if r.Str("PeerLabel") != "" {
			peer = append(peer, "label="+r.Str("PeerLabel"))
		}
		if len(peer) > 0 {
			sep := ", "
			if rapid.Bool().Draw(t, "peersep") {
				sep = " "
			}
			b = append(b, "peer=("+strings.Join(peer, sep)+")")
		}
	case "mqueue":
		b = append(b, "mqueue")
		if l := r.List("Access"); len(l) > 0 {
			b = append(b, surfaceList(t, "acc", l))
		}
		kv("type", r.Str("Type"))
		kv("label", r.Str("Label"))
		if r.Str("Name") != "" {
			b = append(b, r.Str("Name"))
		}
	case "io_uring":
		b = append(b, "io_uring")
		if l := r.List("Access"); len(l) > 0 {
			b = append(b, surfaceList(t, "acc", l))
		}
		kv("label", r.Str("Label"))
	case "userns":
		b = append(b, "userns")
		if rapid.Bool().Draw(t, "create") {
			b = append(b, "create")
		}
	case "rlimit":
		b = append(b, "set", "rlimit", r.Str("Key"), r.Str("Op"), r.Str("Value"))
	case "all":
		b = append(b, "all")
	}
	var out strings.Builder
	for i, tok := range b {
		if i > 0 {
			if r.Kind == "dbus" && i > 2 && chance(t, "nl", 4) {
				out.WriteString("\n       ")
			} else {
				out.WriteString(sp(t))
			}
		}
		out.WriteString(tok)
	}
	out.WriteString(",")
	if c := r.Str("Comment"); c != "" {
		out.WriteString(sp(t) + "#" + c)
	}
	return out.String()
}

type C09Text struct {
	Text string `json:"text"`
}

func c09TextOracle(c C09Text) (parsed *RS, err error) {
	resetParser()
	para, perr := safeParseRules(c.Text + "\n\n")
	if perr != nil {
		if strings.Contains(perr.Error(), "panicked") {
			return nil, fmt.Errorf("parser panics on a valid spelling: %v\n  text: %q", perr, c.Text)
		}
		return nil, nil // rejected spelling: outside the parser's language, nothing to round-trip
	}
	flat := para.Flatten()
	if len(flat) != 1 || flat[0] == nil {
		return nil, nil
	}
	r1 := FromRule(flat[0])
	if _, err := c09RuleOracle(C09Rule{R: r1}); err != nil {
		return &r1, fmt.Errorf("a rule produced by the parser does not round-trip\n  source text: %q\n  %v", c.Text, err)
	}
	return &r1, nil
}

func TestC09_Text(t *testing.T) {
	ev := NewEv(t, "C09", "text", "(B) rule text in alternative valid spellings (bare / parenthesised / comma / space lists, peer=(..) in both orders, multi-line dbus, extra blanks, 'allow', 'file' keyword, trailing comment); the text is parsed first and the parsed rule must round-trip (parse(print(r)) == r, print stable). Non-trivial as for (A); cases the parser rejects are counted as 'rejected'")
	rapid.Check(t, func(t *rapid.T) {
		r := genC09Rule(t)
		text := surfacePrint(t, r)
		c := C09Text{Text: text}
		r1, err := c09TextOracle(c)
		if r1 == nil && err == nil {
			ev.Case("", "rejected", "kind:"+r.Kind)
			return
		}
		cls := "parsed-as-intended"
		if r1 != nil && canonForRoundTrip(*r1) != canonForRoundTrip(r) {
			cls = "parsed-differently"
		}
		key := ""
		if r1 != nil {
			key = c09Nontrivial(*r1, text)
		}
		ev.Case(key, cls, "kind:"+r.Kind)
		ev.Sample(c)
		if err != nil {
			if Explore(r.Kind+": "+firstLine(err), err) {
				return
			}
			t.Fatalf("%s", ev.Fail(c, "", "%v", err))
		}
	})
	ExploreReport(t)
}

// ---------------------------------------------------------------------------
// (C) blocks of mixed rules after Merge + Sort + Format.

type C09Block struct {
	L []RS `json:"rules"`
}

func safeMSF(l aa.Rules) (res aa.Rules, err error) {
	defer func() {
		if p := recover(); p != nil {
			err = fmt.Errorf("Merge/Sort/Format panicked: %v", p)
		}
	}()
	return l.Merge().Sort().Format(), nil
}

func multiset(l []RS) []string {
	res := make([]string, 0, len(l))
	for _, r := range l {
		res = append(res, canonForRoundTrip(r))
	}
	sort.Strings(res)
	return res
}

func c09BlockOracle(c C09Block) (string, error) {
	resetParser()
	formatted, err := safeMSF(rsToRules(c.L))
	if err != nil {
		return "", err
	}
	text, err := func() (s string, err error) {
		defer func() {
			if p := recover(); p != nil {
				err = fmt.Errorf("String panicked: %v", p)
			}
		}()
		return formatted.String(), nil
	}()
	if err != nil {
		return "", err
	}
	want := multiset(rulesToRS(formatted))
	para, err := safeParseRules(text + "\n\n")
	if err != nil {
		return text, fmt.Errorf("formatted block does not parse: %v\n--- text\n%s", err, text)
	}
	parsed := para.Flatten()
	got := multiset(rulesToRS(parsed))
	if strings.Join(got, "\n") != strings.Join(want, "\n") {
		return text, fmt.Errorf("parsing the formatted block gives other rules\n--- text\n%s--- want\n%s\n--- got\n%s", text, strings.Join(want, "\n"), strings.Join(got, "\n"))
	}
	// formatting is layout only: a second Merge/Sort/Format/print is the identity
	resetParser()
	again, err := safeMSF(parsed.FilterOut("")) // FilterOut drops the nil separators
	if err != nil {
		return text, err
	}
	text2 := again.String()
	if text2 != text {
		return text, fmt.Errorf("re-formatting the parsed block changes the text\n--- first\n%s--- second\n%s", text, text2)
	}
	return text, nil
}

func TestC09_Blocks(t *testing.T) {
	ev := NewEv(t, "C09", "blocks", "(C) blocks of 2-25 rules of mixed kinds, merged, sorted and formatted (aligned); oracle: the multiset of rules parsed from the printed block equals the block's rules, and Merge/Sort/Format/print of the parsed block reproduces the text byte for byte. Non-trivial: padding was inserted or a quoted value / comment is present; distinct by printed text")
	rapid.Check(t, func(t *rapid.T) {
		n := rapid.IntRange(2, 25).Draw(t, "n")
		var l []RS
		execOf := map[string]bool{}
		fixedKind := pick(t, "kind", allKinds)
		mixed := rapid.Bool().Draw(t, "mixed")
		for i := 0; i < n; i++ {
			r := genC09Rule(t)
			if mixed && chance(t, "include", 8) {
				r = genC11Rule(t, "include", false)
			}
			if !mixed && r.Kind != fixedKind {
				r = GenRule(t, fixedKind, GenOpt{V: WideVocab(t)})
			}
			if r.Kind == "file" {
				// one exec transition per path (conflicting x modifiers are invalid policy)
				acc := r.List("Access")
				last := acc[len(acc)-1]
				if len(last) > 1 || last == "x" {
					if execOf[r.Str("Path")] {
						continue
					}
					execOf[r.Str("Path")] = true
				}
			}
			l = append(l, r)
		}
		if len(l) < 2 {
			ev.Case("", "short")
			return
		}
		c := C09Block{L: l}
		text, err := c09BlockOracle(c)
		key := ""
		if strings.Contains(text, "  ") || strings.Contains(text, `"`) || strings.Contains(text, "#") {
			key = text
		}
		ev.Case(key, fmt.Sprintf("mixed:%v", mixed))
		ev.Sample(map[string]any{"text": text})
		if err != nil {
			if Explore("block: "+firstLine(err), err) {
				return
			}
			t.Fatalf("%s", ev.Fail(c, "", "%v", err))
		}
	})
	ExploreReport(t)
}

// ---------------------------------------------------------------------------
// (D) profile files: preamble + header.

type C09File struct {
	Pre         []RS              `json:"preamble"`
	Name        string            `json:"name"`
	Attachments []string          `json:"attachments"`
	Flags       []string          `json:"flags"`
	Xattrs      map[string]string `json:"xattrs"`
}

func genC09File(t *rapid.T) C09File {
	var c C09File
	n := rapid.IntRange(0, 8).Draw(t, "npre")
	varNames := []string{"exec_path", "x", "lib_dirs", "X"}
	defined := map[string]bool{}
	for i := 0; i < n; i++ {
		switch pick(t, "prekind", []string{"comment", "abi", "alias", "include", "variable", "variable"}) {
		case "comment":
			c.Pre = append(c.Pre, RS{Kind: "comment", F: map[string]any{"IsLineRule": true,
				"Comment": pick(t, "ctext", []string{" apparmor.d - Full set of apparmor profiles", " x", "", " a = b", " include <foo>", " vim:syntax=apparmor", "nospace", " @{exec_path} = /x"})}})
		case "abi":
			f := map[string]any{"Path": pick(t, "abipath", []string{"abi/4.0", "abi/3.0"})}
			if !chance(t, "abiquoted", 4) {
				f["IsMagic"] = true
			}
			c.Pre = append(c.Pre, RS{Kind: "abi", F: f})
		case "alias":
			c.Pre = append(c.Pre, RS{Kind: "alias", F: map[string]any{"Path": genPath(t, "al"), "RewrittenPath": genPath(t, "ar")}})
		case "include":
			f := map[string]any{"Path": pick(t, "incpath", []string{"tunables/global", "tunables/foo.d", "/etc/apparmor.d/local/x", "abstractions/base"})}
			if !chance(t, "incquoted", 4) {
				f["IsMagic"] = true
			}
			if chance(t, "ifexists", 3) {
				f["IfExists"] = true
			}
			c.Pre = append(c.Pre, RS{Kind: "include", F: f})
		case "variable":
			name := pick(t, "vname", varNames)
			f := map[string]any{"Name": name}
			if !defined[name] {
				f["Define"] = true
				defined[name] = true
			}
			nv := rapid.IntRange(1, 4).Draw(t, "nvals")
			vals := make([]string, nv)
			for j := range vals {
				if chance(t, "plainval", 4) {
					vals[j] = pick(t, "pv", []string{"foo", "*-linux-gnu*", "x86_64", "[0-9]", "{a,b}", `"a b"`})
				} else {
					vals[j] = genPath(t, "vv")
				}
			}
			f["Values"] = vals
			c.Pre = append(c.Pre, RS{Kind: "variable", F: f})
		}
	}
	for i := range c.Pre {
		if c.Pre[i].Kind != "comment" && chance(t, "precomment", 4) {
			c.Pre[i].F["Comment"] = pick(t, "pctext", []string{" a comment", " x", " optional: a comment", " see #12"})
		}
	}
	c.Name = pick(t, "pname", []string{"foo", "foo-bar", "foo.bar_baz", `"foo bar"`, "/usr/bin/foo", "@{exec_path}", "foo//bar"})
	na := rapid.IntRange(0, 3).Draw(t, "natt")
	for i := 0; i < na; i++ {
		if i == 0 && chance(t, "execpath", 2) {
			c.Attachments = append(c.Attachments, "@{exec_path}")
		} else {
			c.Attachments = append(c.Attachments, genPath(t, "att"))
		}
	}
	c.Flags = subsetOrdered(t, "flags", []string{"attach_disconnected", "audit", "chroot_relative", "complain", "debug", "default_allow", "enforce", "interruptible", "kill", "mediate_deleted", "prompt", "unconfined"}, 0, 3)
	nx := rapid.IntRange(0, 2).Draw(t, "nx")
	if nx > 0 {
		c.Xattrs = map[string]string{}
		for i := 0; i < nx; i++ {
			c.Xattrs[pick(t, "xk", []string{"security.apparmor", "user.tag", "security.x"})] = pick(t, "xv", []string{"foo", `"a b"`, "bar*", "1"})
		}
	}
	return c
}

func c09FileOracle(c C09File) (string, error) {
	resetParser()
	f := &aa.AppArmorProfileFile{Preamble: rsToRules(c.Pre)}
	attrs := map[string]string{}
	for k, v := range c.Xattrs {
		attrs[k] = v
	}
	f.Profiles = []*aa.Profile{{Header: aa.Header{Name: c.Name, Attachments: c.Attachments, Flags: c.Flags, Attributes: attrs}}}
	text, err := func() (s string, err error) {
		defer func() {
			if p := recover(); p != nil {
				err = fmt.Errorf("String panicked: %v", p)
			}
		}()
		return f.String(), nil
	}()
	if err != nil {
		return "", err
	}
	f2 := &aa.AppArmorProfileFile{}
	_, err = func() (n int, err error) {
		defer func() {
			if p := recover(); p != nil {
				err = fmt.Errorf("Parse panicked: %v", p)
			}
		}()
		return f2.Parse(text)
	}()
	if err != nil {
		return text, fmt.Errorf("rendered profile file does not parse: %v\n--- text\n%s", err, text)
	}
	// line rules (comments, includes, variables) keep their order; abi and alias are a set
	split := func(l []RS) (line []string, comma []string) {
		for _, r := range l {
			switch r.Kind {
			case "abi", "alias":
				comma = append(comma, canonForRoundTrip(r))
			default:
				line = append(line, canonForRoundTrip(r))
			}
		}
		sort.Strings(comma)
		return
	}
	wl, wc := split(c.Pre)
	gl, gc := split(rulesToRS(f2.Preamble))
	if strings.Join(wl, "\n") != strings.Join(gl, "\n") {
		return text, fmt.Errorf("preamble line rules differ after parsing the rendered file\n--- text\n%s--- want\n%s\n--- got\n%s", text, strings.Join(wl, "\n"), strings.Join(gl, "\n"))
	}
	if strings.Join(wc, "\n") != strings.Join(gc, "\n") {
		return text, fmt.Errorf("abi/alias rules differ after parsing the rendered file\n--- text\n%s--- want\n%s\n--- got\n%s", text, strings.Join(wc, "\n"), strings.Join(gc, "\n"))
	}
	if len(f2.Profiles) != 1 {
		return text, fmt.Errorf("rendered file parses into %d profile headers\n--- text\n%s", len(f2.Profiles), text)
	}
	h := f2.Profiles[0].Header
	if h.Name != c.Name {
		return text, fmt.Errorf("profile name %q parsed back as %q\n--- text\n%s", c.Name, h.Name, text)
	}
	if strings.Join(h.Attachments, "\x00") != strings.Join(c.Attachments, "\x00") {
		return text, fmt.Errorf("attachments %q parsed back as %q\n--- text\n%s", c.Attachments, h.Attachments, text)
	}
	sf := func(l []string) string { l = append([]string{}, l...); sort.Strings(l); return strings.Join(l, ",") }
	if sf(h.Flags) != sf(c.Flags) {
		return text, fmt.Errorf("flags %q parsed back as %q\n--- text\n%s", c.Flags, h.Flags, text)
	}
	if len(h.Attributes) != len(c.Xattrs) {
		return text, fmt.Errorf("xattrs %v parsed back as %v\n--- text\n%s", c.Xattrs, h.Attributes, text)
	}
	for k, v := range c.Xattrs {
		if h.Attributes[k] != v {
			return text, fmt.Errorf("xattrs %v parsed back as %v\n--- text\n%s", c.Xattrs, h.Attributes, text)
		}
	}
	// rendering again reproduces the same text (twice: map order must not matter).
	// The parser returns abi/alias rules after the line rules (the statement only
	// promises them "as a set"), so the text can only be compared when the source
	// already had them last.
	commaSeen, ordered := false, true
	for _, r := range c.Pre {
		if r.Kind == "abi" || r.Kind == "alias" {
			commaSeen = true
		} else if commaSeen {
			ordered = false
		}
	}
	for i := 0; ordered && i < 2; i++ {
		resetParser()
		if t2 := f2.String(); t2 != text {
			return text, fmt.Errorf("rendering the parsed file again changes the text\n--- first\n%s--- second\n%s", text, t2)
		}
	}
	return text, nil
}

func TestC09_Files(t *testing.T) {
	ev := NewEv(t, "C09", "files", "(D) profile files: 0-8 preamble rules (comments, abi, alias, includes, variable definitions and appends with composed values) + a header with name, 0-3 attachments, 0-3 flags, 0-2 xattrs; oracle: parsing the rendered file recovers comments/includes/variables in order, abi/alias as a set, and every header field; rendering again is byte-identical. Non-trivial: >= 2 preamble rules and >= 1 optional header field; distinct by text")
	rapid.Check(t, func(t *rapid.T) {
		c := genC09File(t)
		text, err := c09FileOracle(c)
		key := ""
		if len(c.Pre) >= 2 && (len(c.Attachments) > 0 || len(c.Flags) > 0 || len(c.Xattrs) > 0) {
			key = text
		}
		ev.Case(key, fmt.Sprintf("xattrs:%d", len(c.Xattrs)), fmt.Sprintf("att:%d", len(c.Attachments)))
		ev.Sample(map[string]any{"text": text})
		if err != nil {
			if Explore("file: "+firstLine(err), err) {
				return
			}
			t.Fatalf("%s", ev.Fail(c, "", "%v", err))
		}
	})
	ExploreReport(t)
}
