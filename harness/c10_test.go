package harness

// C10 — merging rules never changes what the rules grant or deny.

import (
	"encoding/json"
	"fmt"
	"os"
	"sort"
	"strings"
	"testing"

	"github.com/roddhjav/apparmor.d/pkg/aa"
	"pgregory.net/rapid"
)

// ---------------------------------------------------------------------------
// Independent denotation: rule -> set of (qualifier, subject, permission) facts.
// Written from apparmor.d(5): value lists that AppArmor treats disjunctively are
// exploded into one fact per member ("*" = the list is absent, i.e. everything);
// conjunctive lists (mount options) stay inside the subject.

var starPools = map[string][]string{
	"signal.Access":   reqSignalAcc,
	"signal.Set":      reqSignalSet,
	"ptrace.Access":   reqPtraceAcc,
	"unix.Access":     reqUnixAcc,
	"dbus.Access":     reqDbusAcc,
	"mqueue.Access":   reqMqueueAcc,
	"io_uring.Access": reqIOUringAcc,
}

func explode(kind, field string, l []string) []string {
	if len(l) == 0 {
		if pool := starPools[kind+"."+field]; pool != nil {
			return append([]string{"*"}, pool...)
		}
		return []string{"*"}
	}
	return l
}

func subject(r RS, fields ...string) string {
	var b strings.Builder
	for _, f := range fields {
		switch v := r.F[f].(type) {
		case string:
			fmt.Fprintf(&b, "%s=%q;", f, v)
		case bool:
			fmt.Fprintf(&b, "%s=%v;", f, v)
		case nil:
			fmt.Fprintf(&b, "%s=;", f)
		default:
			l := append([]string{}, r.List(f)...)
			sort.Strings(l)
			fmt.Fprintf(&b, "%s=%q;", f, l)
		}
	}
	return b.String()
}

// Denote returns the fact set of one rule.
func Denote(r RS) []string {
	q := fmt.Sprintf("%s|audit=%v|%s|", r.Kind, r.Bool("Audit"), r.Str("AccessType"))
	var facts []string
	add := func(subj string, perms ...string) {
		for _, p := range perms {
			facts = append(facts, q+subj+"|"+p)
		}
	}
	switch r.Kind {
	case "file":
		add(subject(r, "Owner", "Path", "Target"), r.List("Access")...)
	case "capability":
		add("", explode(r.Kind, "Names", r.List("Names"))...)
	case "signal":
		subj := subject(r, "Peer")
		for _, a := range explode(r.Kind, "Access", r.List("Access")) {
			for _, s := range explode(r.Kind, "Set", r.List("Set")) {
				add(subj, a+"/"+s)
			}
		}
	case "ptrace":
		add(subject(r, "Peer"), explode(r.Kind, "Access", r.List("Access"))...)
	case "unix":
		add(subject(r, "Type", "Protocol", "Address", "Label", "Attr", "Opt", "PeerLabel", "PeerAddr"), explode(r.Kind, "Access", r.List("Access"))...)
	case "dbus":
		add(subject(r, "Bus", "Name", "Path", "Interface", "Member", "PeerName", "PeerLabel"), explode(r.Kind, "Access", r.List("Access"))...)
	case "mqueue":
		add(subject(r, "Type", "Label", "Name"), explode(r.Kind, "Access", r.List("Access"))...)
	case "io_uring":
		add(subject(r, "Label"), explode(r.Kind, "Access", r.List("Access"))...)
	case "variable":
		vals := r.List("Values")
		if len(vals) == 0 {
			vals = []string{""}
		}
		for _, v := range vals {
			facts = append(facts, fmt.Sprintf("variable|%s|define=%v|%s", r.Str("Name"), r.Bool("Define"), v))
		}
	default:
		// every other kind is atomic: the whole rule (minus annotations) is one fact.
		// Mount options are conjunctive, so they are part of the subject.
		c := r.Clone()
		if l := c.List("Options"); len(l) > 0 {
			l = append([]string{}, l...)
			sort.Strings(l)
			c.F["Options"] = l
		}
		facts = append(facts, c.Canon(false))
	}
	return facts
}

func denoteAll(l []RS) map[string]bool {
	res := map[string]bool{}
	for _, r := range l {
		if r.Kind == "comment" {
			continue
		}
		for _, f := range Denote(r) {
			res[f] = true
		}
	}
	// a "*" fact subsumes the members of its pool: normalise by dropping members
	// that are covered by a star with the same prefix (same qualifier and subject)
	return res
}

func setDiff(a, b map[string]bool) []string {
	var res []string
	for k := range a {
		if !b[k] {
			res = append(res, k)
		}
	}
	sort.Strings(res)
	return res
}

// ---------------------------------------------------------------------------

type C10Case struct {
	L []RS `json:"rules"`
}

func safeMerge(l aa.Rules) (res aa.Rules, err error) {
	defer func() {
		if p := recover(); p != nil {
			err = fmt.Errorf("Merge panicked: %v", p)
		}
	}()
	return l.Merge(), nil
}

func canonList(l []RS, withBase bool) string {
	parts := make([]string, len(l))
	for i, r := range l {
		parts[i] = r.Canon(withBase)
	}
	return strings.Join(parts, "\n")
}

// c10Oracle returns (merged, error).
func c10Oracle(c C10Case) ([]RS, error) {
	merged, err := safeMerge(rsToRules(c.L))
	if err != nil {
		return nil, err
	}
	m := rulesToRS(merged)
	din, dout := denoteAll(c.L), denoteAll(m)
	lost, added := setDiff(din, dout), setDiff(dout, din)
	if len(lost) > 0 || len(added) > 0 {
		return m, fmt.Errorf("merge changed the meaning of the list\n  input : %s\n  merged: %s\n  lost  : %v\n  added : %v",
			strings.ReplaceAll(canonList(c.L, false), "\n", "\n          "),
			strings.ReplaceAll(canonList(m, false), "\n", "\n          "), lost, added)
	}
	// idempotence
	merged2, err := safeMerge(rsToRules(m))
	if err != nil {
		return m, err
	}
	m2 := rulesToRS(merged2)
	if canonList(m, true) != canonList(m2, true) {
		return m, fmt.Errorf("merging a merged list changes it again\n  once : %s\n  twice: %s",
			strings.ReplaceAll(canonList(m, true), "\n", "\n         "), strings.ReplaceAll(canonList(m2, true), "\n", "\n         "))
	}
	return m, nil
}

var c10Kinds = append(append([]string{}, allKinds...), "include", "variable", "abi", "alias")

func genC10Rule(t *rapid.T, kind string) RS {
	switch kind {
	case "include":
		return genC11Rule(t, "include", true)
	case "variable":
		f := map[string]any{"Name": pick(t, "vname", []string{"x", "X", "exec_path"})}
		f["Values"] = subsetOrdered(t, "vals", []string{"/a", "/A", "/b", "@{bin}/c"}, 1, 3)
		return RS{Kind: "variable", F: f} // Define=false: appends only (a second '=' is invalid policy)
	case "abi":
		f := map[string]any{"Path": pick(t, "abipath", []string{"abi/4.0", "abi/3.0"})}
		if rapid.Bool().Draw(t, "magic") {
			f["IsMagic"] = true
		}
		return RS{Kind: "abi", F: f}
	case "alias":
		return RS{Kind: "alias", F: map[string]any{"Path": pick(t, "ap", []string{"/a", "/A"}), "RewrittenPath": pick(t, "arp", []string{"/b", "/B"})}}
	}
	return GenRule(t, kind, GenOpt{V: NarrowVocab, Small: true, Comments: true})
}

// genC10List draws 2-12 rules in which near-duplicates are the norm. Conflicting
// exec modes on one path are not generated: AppArmor itself rejects them.
func genC10List(t *rapid.T, ev *Ev) []RS {
	n := rapid.IntRange(2, 12).Draw(t, "n")
	mixed := chance(t, "mixed", 3)
	kind := pick(t, "kind", c10Kinds)
	var l []RS
	execOf := map[string]string{}
	for i := 0; i < n; i++ {
		k := kind
		if mixed {
			k = pick(t, "k", c10Kinds)
		}
		r := genC10Rule(t, k)
		if len(l) > 0 && !chance(t, "fresh", 3) {
			// near-duplicate of an earlier rule of the same kind: change one field
			var cands []int
			for j, o := range l {
				if o.Kind == k {
					cands = append(cands, j)
				}
			}
			if len(cands) > 0 {
				base := l[cands[rapid.IntRange(0, len(cands)-1).Draw(t, "dupof")]].Clone()
				keys := sortedKeys(r.F)
				if len(keys) > 0 && !chance(t, "exactdup", 5) {
					f := keys[rapid.IntRange(0, len(keys)-1).Draw(t, "dupfield")]
					base.F[f] = r.F[f]
				}
				r = base
			}
		}
		if r.Kind == "file" {
			// keep at most one exec transition (and target) per path among allow rules
			acc := r.List("Access")
			if len(acc) > 0 && r.Str("AccessType") != "deny" {
				last := acc[len(acc)-1]
				isTrans := len(last) > 1 || last == "x"
				if isTrans {
					sig := last + "->" + r.Str("Target")
					if prev, ok := execOf[r.Str("Path")]; ok && prev != sig {
						// drop the transition instead of generating invalid policy
						acc = acc[:len(acc)-1]
						if len(acc) == 0 {
							acc = []string{"r"}
						}
						r.F["Access"] = acc
						delete(r.F, "Target")
					} else {
						execOf[r.Str("Path")] = sig
					}
				}
			}
			if len(r.List("Access")) > 0 {
				a := r.List("Access")
				last := a[len(a)-1]
				if !(len(last) > 1 || last == "x") {
					delete(r.F, "Target")
				}
			}
		}
		if key := c10Excluded(r); key != "" {
			ev.ExcludedKnown(key)
			continue
		}
		l = append(l, r)
	}
	return l
}

// c10Excluded returns the known-finding key whose region contains the rule, if
// that key is listed in known_findings.txt (generators exclude listed regions
// by construction so that one shallow finding does not end every campaign).
func c10Excluded(r RS) string {
	switch r.Kind {
	case "mount", "umount", "remount":
		if IsKnown("C10", "mount-options-union") {
			return "mount-options-union"
		}
	}
	return ""
}

func TestC10_Merge(t *testing.T) {
	ev := NewEv(t, "C10", "merge", "lists of 2-12 valid rules (all kinds incl. preamble kinds) from a narrow vocabulary; 2/3 of the rules are near-duplicates of an earlier rule with one field changed (case variants, bytes outside the sort alphabet, qualifier, owner); oracle: independent fact-set denotation D(Merge(L)) == D(L) and Merge idempotent. Non-trivial: Merge removed or changed at least one rule; distinct by canonical text of the input list")
	ev.Assume("conflicting exec transitions on one path are not generated (invalid AppArmor policy)",
		"an absent access/set list denotes every member of the documented list")
	rapid.Check(t, func(t *rapid.T) {
		c := C10Case{L: genC10List(t, ev)}
		if len(c.L) < 2 {
			ev.Case("", "short")
			return
		}
		m, err := c10Oracle(c)
		key := ""
		if m != nil && canonList(m, true) != canonList(c.L, true) {
			key = canonList(c.L, false)
			ev.Class(fmt.Sprintf("removed:%d", min(len(c.L)-len(m), 4)))
		}
		ev.Case(key, "kind:"+c.L[0].Kind)
		ev.Sample(c)
		if err != nil {
			t.Fatalf("%s", ev.Fail(c, "", "%v", err))
		}
	})
}

// Fixed witnesses of listed findings: printed as KNOWN-FINDING while they reproduce.
func TestC10_Witnesses(t *testing.T) {
	ev := NewEv(t, "C10", "witnesses", "fixed witnesses of the repaired and listed findings (regression tier)")
	type w struct {
		key  string
		what string
		l    []RS
	}
	file := func(p string, acc ...string) RS { return RS{Kind: "file", F: map[string]any{"Path": p, "Access": acc}} }
	ws := []w{
		{"", "case variants", []RS{file("/Foo", "r"), file("/foo", "r")}},
		{"", "utf-8", []RS{file("/é", "r"), file("/è", "r")}},
		{"", "non-alphabet bytes", []RS{file(`"/a b"`, "r"), file(`"/a!b"`, "r")}},
		{"", "mqueue names", []RS{{Kind: "mqueue", F: map[string]any{"Name": "/a", "Access": []string{"r"}}}, {Kind: "mqueue", F: map[string]any{"Name": "/b", "Access": []string{"r"}}}}},
		{"", "deny userns + userns", []RS{{Kind: "userns", F: map[string]any{"Create": true, "AccessType": "deny"}}, {Kind: "userns", F: map[string]any{"Create": true}}}},
		{"mount-options-union", "mount rules with different option sets are merged into one rule requiring all options",
			[]RS{{Kind: "mount", F: map[string]any{"Options": []string{"ro"}, "MountPoint": "/a"}}, {Kind: "mount", F: map[string]any{"Options": []string{"nosuid"}, "MountPoint": "/a"}}}},
	}
	for i, x := range ws {
		c := C10Case{L: x.l}
		_, err := c10Oracle(c)
		ev.Case(fmt.Sprintf("w%d", i))
		ev.Sample(c)
		if err == nil {
			continue
		}
		if x.key != "" && IsKnown("C10", x.key) {
			ev.KnownFinding(x.key, x.what)
			continue
		}
		ev.Violate(c, x.key, "witness %q: %v", x.what, err)
		t.Errorf("witness %q: %v", x.what, err)
	}
}

func TestC10_Replay(t *testing.T) {
	path := os.Getenv("VERIF_REPLAY")
	if path == "" {
		t.Skip("no VERIF_REPLAY")
	}
	var c C10Case
	rf, err := LoadReplay(path, &c)
	if err != nil {
		t.Fatal(err)
	}
	ev := NewEv(t, "C10", "replay", "replay of one saved case")
	ev.Case("replay")
	if _, oerr := c10Oracle(c); oerr != nil {
		ev.Violate(json.RawMessage(rf.Case), "", "%v", oerr)
		t.Fatalf("%v", oerr)
	}
}
