package harness

// gens.go: rapid generators of rule descriptions (RS). All random choices go
// through rapid, so cases shrink and replay.

import (
	"reflect"
	"strings"

	"pgregory.net/rapid"
)

// Requirement lists, in the library's canonical order (pkg/aa/*.go init()).
var (
	reqFileAccess = []string{"m", "r", "w", "l", "k"}
	reqFileTrans  = []string{"ix", "ux", "Ux", "px", "Px", "cx", "Cx", "pix", "Pix", "cix", "Cix", "pux", "PUx", "cux", "CUx", "x"}
	reqCaps       = []string{"audit_control", "audit_read", "audit_write", "block_suspend", "bpf",
		"checkpoint_restore", "chown", "dac_override", "dac_read_search", "fowner", "fsetid", "ipc_lock",
		"ipc_owner", "kill", "lease", "linux_immutable", "mac_admin", "mac_override", "mknod", "net_admin",
		"net_bind_service", "net_broadcast", "net_raw", "perfmon", "setfcap", "setgid", "setpcap", "setuid",
		"sys_admin", "sys_boot", "sys_chroot", "sys_module", "sys_nice", "sys_pacct", "sys_ptrace", "sys_rawio",
		"sys_resource", "sys_time", "sys_tty_config", "syslog", "wake_alarm"}
	reqNetDomains = []string{"unix", "inet", "ax25", "ipx", "appletalk", "netrom", "bridge", "atmpvc", "x25",
		"inet6", "rose", "netbeui", "security", "key", "netlink", "packet", "ash", "econet", "atmsvc", "rds",
		"sna", "irda", "pppox", "wanpipe", "llc", "ib", "mpls", "can", "tipc", "bluetooth", "iucv", "rxrpc",
		"isdn", "phonet", "ieee802154", "caif", "alg", "nfc", "vsock", "kcm", "qipcrtr", "smc", "xdp", "mctp"}
	reqNetType   = []string{"stream", "dgram", "seqpacket", "rdm", "raw", "packet"}
	reqNetProto  = []string{"tcp", "udp", "icmp"}
	reqSignalAcc = []string{"r", "w", "rw", "read", "write", "send", "receive"}
	reqSignalSet = []string{"abrt", "alrm", "bus", "chld", "cont", "emt", "exists", "fpe", "hup", "ill", "int",
		"io", "kill", "pipe", "prof", "pwr", "quit", "segv", "stkflt", "stop", "stp", "sys", "term", "trap",
		"ttin", "ttou", "urg", "usr1", "usr2", "vtalrm", "winch", "xcpu", "xfsz", "rtmin+0", "rtmin+1",
		"rtmin+2", "rtmin+8", "rtmin+31", "rtmin+32"}
	reqPtraceAcc  = []string{"r", "w", "rw", "read", "readby", "trace", "tracedby"}
	reqUnixAcc    = []string{"create", "bind", "listen", "accept", "connect", "shutdown", "getattr", "setattr", "getopt", "setopt", "send", "receive", "r", "w", "rw"}
	reqDbusAcc    = []string{"send", "receive", "bind", "eavesdrop", "r", "read", "w", "write", "rw"}
	reqDbusBus    = []string{"system", "session", "accessibility"}
	reqMqueueAcc  = []string{"r", "w", "rw", "read", "write", "create", "open", "delete", "getattr", "setattr"}
	reqMqueueType = []string{"posix", "sysv"}
	reqIOUringAcc = []string{"sqpoll", "override_creds"}
	reqMountFlags = []string{"ro", "rw", "acl", "async", "atime", "bind", "dev", "diratime", "dirsync", "exec",
		"iversion", "loud", "mand", "move", "noacl", "noatime", "nodev", "nodiratime", "noexec", "noiversion",
		"nomand", "norelatime", "nosuid", "nouser", "private", "rbind", "relatime", "remount", "rprivate",
		"rshared", "rslave", "runbindable", "shared", "silent", "slave", "strictatime", "suid", "sync",
		"unbindable", "user", "verbose"}
	reqRlimitKeys = []string{"cpu", "fsize", "data", "stack", "core", "rss", "nofile", "ofile", "as", "nproc",
		"memlock", "locks", "sigpending", "msgqueue", "nice", "rtprio", "rttime"}
	reqCPMode = []string{"safe", "unsafe"}

	fileAlphabetPrefixes = []string{"@{exec_path}", "@{sh_path}", "@{coreutils_path}", "@{open_path}", "@{bin}",
		"@{lib}", "/opt", "/usr/share", "/etc", "/var", "/boot", "/home", "@{HOME}", "@{user_cache_dirs}",
		"@{user_config_dirs}", "@{user_share_dirs}", "/tmp", "@{tmp}", "/dev/shm", "@{run}", "@{sys}",
		"@{PROC}", "/dev"}

	allKinds = []string{"file", "link", "capability", "network", "mount", "umount", "remount", "pivot_root",
		"change_profile", "signal", "ptrace", "unix", "dbus", "mqueue", "io_uring", "userns", "rlimit", "all"}
	// kinds that AppArmor 3.0 understands (the reference parser can compile them)
	abi3Kinds = []string{"file", "link", "capability", "network", "mount", "umount", "remount", "pivot_root",
		"change_profile", "signal", "ptrace", "unix", "dbus", "rlimit"}
)

// Vocab is the pool of free-form values a generator draws from. A narrow pool
// makes near-duplicates (rules differing in one field, in case, in one byte)
// the norm rather than the exception.
type Vocab struct {
	Paths   []string
	Names   []string // profile names / labels / peers
	Addrs   []string
	FsTypes []string
	DbusN   []string // dbus names / interfaces
	DbusP   []string // dbus object paths
	Members []string
}

// NarrowVocab: 3-6 values per pool with deliberate near-collisions.
var NarrowVocab = Vocab{
	Paths: []string{"/foo", "/Foo", "/foo/", "/zzz", "/etc/a", "/etc/A", "@{run}/x", "@{HOME}/.a", "@{bin}/foo",
		"@{lib}/foo", "/usr/share/b", "/opt/x", "/é", "/è", `"/a b"`, `"/a!b"`, "/a{b,c}", "/a[0-9]", "/tmp/x",
		"@{tmp}/x", "/dev/shm/y", "/usr/lib/q", "/proc/1", "@{PROC}/1", "/**", "/", "/usr/bin/mysqld_safe", "/opt/unsafe"}, // the last two end like keywords
	Names:   []string{"foo", "Foo", "bar", "foo//bar", "@{p_systemd}", "unconfined", "foo-bar", "/foo", "/etc/a"}, // the last two are also in Paths
	Addrs:   []string{"none", "@/tmp/a", "@/tmp/A", `"@/tmp/.X11-unix/X0"`},
	FsTypes: []string{"tmpfs", "Tmpfs", "proc", "ext4"},
	DbusN:   []string{"org.a.B", "org.a.b", "org.a.C", "org.freedesktop.DBus"},
	DbusP:   []string{"/org/a/B", "/org/a/b", "/org/a/B{,/**}"},
	Members: []string{"Get", "get", "{Get,Set}", "Introspect"},
}

func pick(t *rapid.T, label string, pool []string) string {
	return pool[rapid.IntRange(0, len(pool)-1).Draw(t, label)]
}

// chance is true one time in n; it shrinks towards false.
func chance(t *rapid.T, label string, n int) bool {
	return rapid.IntRange(0, n-1).Draw(t, label) == n-1
}

func maybe(t *rapid.T, label string, pool []string) string {
	if rapid.Bool().Draw(t, label+"?") {
		return pick(t, label, pool)
	}
	return ""
}

// subsetOrdered draws a subset of pool (min..max elements) keeping pool order,
// which is the library's canonical order for value lists.
func subsetOrdered(t *rapid.T, label string, pool []string, min, max int) []string {
	if max > len(pool) {
		max = len(pool)
	}
	n := rapid.IntRange(min, max).Draw(t, label+"#")
	if n == 0 {
		return nil
	}
	idx := rapid.SliceOfNDistinct(rapid.IntRange(0, len(pool)-1), n, n, rapid.ID[int]).Draw(t, label)
	// sort indices
	for i := 1; i < len(idx); i++ {
		for j := i; j > 0 && idx[j-1] > idx[j]; j-- {
			idx[j-1], idx[j] = idx[j], idx[j-1]
		}
	}
	res := make([]string, 0, n)
	for _, i := range idx {
		res = append(res, pool[i])
	}
	return res
}

// smallPool restricts a requirement list to a few entries so collisions happen.
func smallPool(pool []string, n int) []string {
	if len(pool) <= n {
		return pool
	}
	return pool[:n]
}

type GenOpt struct {
	V        Vocab
	Small    bool // restrict enumerated value pools to a handful of members
	Comments bool // attach trailing comments / Base annotations
	NoDeny   bool
}

func setIf(f map[string]any, k string, v string) {
	if v != "" {
		f[k] = v
	}
}

func setList(f map[string]any, k string, v []string) {
	if len(v) > 0 {
		f[k] = v
	}
}

func genQualifier(t *rapid.T, f map[string]any, o GenOpt) {
	if chance(t, "audit", 4) {
		f["Audit"] = true
	}
	if !o.NoDeny && chance(t, "deny", 4) {
		f["AccessType"] = "deny"
	} else if chance(t, "allow", 8) {
		f["AccessType"] = "allow" // the explicit spelling of the default
	}
}

func poolN(o GenOpt, pool []string, n int) []string {
	if o.Small {
		return smallPool(pool, n)
	}
	return pool
}

// GenRule draws one rule of the given kind in constructor-canonical form.
func GenRule(t *rapid.T, kind string, o GenOpt) RS {
	f := map[string]any{}
	r := RS{Kind: kind, F: f}
	switch kind {
	case "file":
		genQualifier(t, f, o)
		if chance(t, "owner", 3) {
			f["Owner"] = true
		}
		f["Path"] = pick(t, "path", o.V.Paths)
		acc := subsetOrdered(t, "access", reqFileAccess, 0, 3)
		trans := ""
		if len(acc) == 0 || chance(t, "trans?", 3) {
			if f["AccessType"] == "deny" {
				trans = "x" // deny rules only take the bare x
			} else {
				trans = pick(t, "trans", poolN(o, []string{"ix", "Px", "px", "Cx", "Ux", "PUx", "pix", "Pix", "cx", "ux", "cix", "Cix", "pux", "cux", "CUx"}, 4))
			}
			acc = append(acc, trans)
		}
		f["Access"] = acc
		if trans != "" && trans != "x" && trans != "ix" && trans != "ux" && trans != "Ux" && chance(t, "target?", 3) {
			f["Target"] = pick(t, "target", o.V.Names)
		}
	case "link":
		genQualifier(t, f, o)
		if chance(t, "owner", 3) {
			f["Owner"] = true
		}
		if chance(t, "subset", 4) {
			f["Subset"] = true
		}
		f["Path"] = pick(t, "path", o.V.Paths)
		f["Target"] = pick(t, "target", o.V.Paths)
	case "capability":
		genQualifier(t, f, o)
		nmin := 1
		if chance(t, "allcaps", 6) {
			nmin = 0 // 'capability,': every capability
		}
		setList(f, "Names", subsetOrdered(t, "names", poolN(o, reqCaps, 5), nmin, 3))
	case "network":
		genQualifier(t, f, o)
		f["Domain"] = pick(t, "domain", poolN(o, reqNetDomains, 4))
		switch rapid.IntRange(0, 2).Draw(t, "nettail") {
		case 1:
			f["Type"] = pick(t, "type", poolN(o, reqNetType, 3))
		case 2:
			f["Protocol"] = pick(t, "proto", reqNetProto)
			if chance(t, "protoonly", 4) {
				delete(f, "Domain") // 'network tcp,'
			}
		}
	case "mount":
		genQualifier(t, f, o)
		setIf(f, "FsType", maybe(t, "fstype", o.V.FsTypes))
		setList(f, "Options", subsetOrdered(t, "options", poolN(o, reqMountFlags, 6), 0, 3))
		src := maybe(t, "source", o.V.Paths)
		setIf(f, "Source", src)
		setIf(f, "MountPoint", maybe(t, "mountpoint", o.V.Paths))
	case "umount", "remount":
		genQualifier(t, f, o)
		setIf(f, "FsType", maybe(t, "fstype", o.V.FsTypes))
		setList(f, "Options", subsetOrdered(t, "options", poolN(o, reqMountFlags, 6), 0, 3))
		setIf(f, "MountPoint", maybe(t, "mountpoint", o.V.Paths))
	case "pivot_root":
		genQualifier(t, f, o)
		setIf(f, "OldRoot", maybe(t, "oldroot", o.V.Paths))
		nr := maybe(t, "newroot", o.V.Paths)
		setIf(f, "NewRoot", nr)
		setIf(f, "TargetProfile", maybe(t, "target", o.V.Names))
	case "change_profile":
		genQualifier(t, f, o)
		ex := maybe(t, "exec", o.V.Paths)
		setIf(f, "Exec", ex)
		if ex != "" {
			setIf(f, "ExecMode", maybe(t, "mode", reqCPMode))
		}
		setIf(f, "ProfileName", maybe(t, "profile", o.V.Names))
	case "signal":
		genQualifier(t, f, o)
		setList(f, "Access", subsetOrdered(t, "access", poolN(o, reqSignalAcc, 7), 0, 2))
		setList(f, "Set", subsetOrdered(t, "set", poolN(o, reqSignalSet, 5), 0, 3))
		setIf(f, "Peer", maybe(t, "peer", o.V.Names))
	case "ptrace":
		genQualifier(t, f, o)
		setList(f, "Access", subsetOrdered(t, "access", reqPtraceAcc, 0, 2))
		setIf(f, "Peer", maybe(t, "peer", o.V.Names))
	case "unix":
		genQualifier(t, f, o)
		setList(f, "Access", subsetOrdered(t, "access", poolN(o, reqUnixAcc, 6), 0, 3))
		setIf(f, "Type", maybe(t, "type", []string{"stream", "dgram", "seqpacket"}))
		setIf(f, "Address", maybe(t, "addr", o.V.Addrs))
		setIf(f, "Label", maybe(t, "label", o.V.Names))
		setIf(f, "PeerLabel", maybe(t, "peerlabel", o.V.Names))
		setIf(f, "PeerAddr", maybe(t, "peeraddr", o.V.Addrs))
	case "dbus":
		genQualifier(t, f, o)
		if chance(t, "bind", 4) {
			f["Access"] = []string{"bind"}
			f["Bus"] = pick(t, "bus", reqDbusBus)
			f["Name"] = pick(t, "name", o.V.DbusN)
		} else {
			setList(f, "Access", subsetOrdered(t, "access", []string{"send", "receive"}, 0, 2))
			setIf(f, "Bus", maybe(t, "bus", reqDbusBus))
			setIf(f, "Path", maybe(t, "path", o.V.DbusP))
			setIf(f, "Interface", maybe(t, "interface", o.V.DbusN))
			setIf(f, "Member", maybe(t, "member", o.V.Members))
			setIf(f, "PeerName", maybe(t, "peername", o.V.DbusN))
			setIf(f, "PeerLabel", maybe(t, "peerlabel", o.V.Names))
		}
	case "mqueue":
		genQualifier(t, f, o)
		setList(f, "Access", subsetOrdered(t, "access", poolN(o, reqMqueueAcc, 5), 0, 2))
		setIf(f, "Type", maybe(t, "type", reqMqueueType))
		setIf(f, "Label", maybe(t, "label", o.V.Names))
		setIf(f, "Name", maybe(t, "name", []string{"/a", "/A", "/b", "1", "2"}))
	case "io_uring":
		genQualifier(t, f, o)
		setList(f, "Access", subsetOrdered(t, "access", reqIOUringAcc, 0, 2))
		setIf(f, "Label", maybe(t, "label", o.V.Names))
	case "userns":
		genQualifier(t, f, o)
		f["Create"] = true
	case "rlimit":
		f["Key"] = pick(t, "key", poolN(o, reqRlimitKeys, 4))
		f["Op"] = "<="
		f["Value"] = pick(t, "value", []string{"0", "1024", "infinity", "5", "900", "1000", "1M", "100", "0100", "9", "10", "1K", "2G"})
	case "all":
		// the rule has no fields of its own today; should it ever carry a qualifier, generate it
		if _, has := reflect.TypeOf(ruleFactory["all"]()).Elem().FieldByName("Audit"); has {
			genQualifier(t, f, o)
		}
	default:
		panic("GenRule: unknown kind " + kind)
	}
	if o.Comments && chance(t, "comment?", 4) {
		f["Comment"] = " " + pick(t, "comment", []string{"a comment", "x", "see #12", "TODO: check, this"})
	}
	return r
}

func quoteIfSpace(s string) string {
	if strings.ContainsAny(s, " ") && !strings.HasPrefix(s, `"`) {
		return `"` + s + `"`
	}
	return s
}
