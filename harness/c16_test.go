package harness

// C16 — rules generated from logs cover the logged access.

import (
	"encoding/json"
	"fmt"
	"os"
	"strings"
	"sync"
	"testing"

	"github.com/roddhjav/apparmor.d/pkg/aa"
	"github.com/roddhjav/apparmor.d/pkg/logs"
	"pgregory.net/rapid"
)

// C16Rec is one well-formed kernel (or dbus-daemon) record with what it means.
type C16Rec struct {
	Class   string            `json:"class"`   // file | exec | link | cap | net | unix | signal | ptrace | dbus | mount | remount | umount | pivotroot | mqueue | io_uring | userns | rlimit | change_onexec
	State   string            `json:"state"`   // ALLOWED | DENIED | AUDIT
	Profile string            `json:"profile"` // profile (label for dbus)
	Fields  map[string]string `json:"fields"`  // the record's fields (raw, before any generalisation)
	Order   []string          `json:"order"`
}

func (r C16Rec) Line() string {
	var rec LogRecord
	rec.Prefix = logPrefixes[0]
	rec.Fields = append(rec.Fields, LogField{Key: "apparmor", Value: r.State, Enc: "quoted"})
	for _, k := range r.Order {
		v := r.Fields[k]
		enc := "quoted"
		switch k {
		case "pid", "fsuid", "ouid", "error", "capability", "protocol", "peer_pid", "value":
			enc = "bare"
		case "signal":
			enc = "bare"
		case "name", "profile", "comm", "srcname":
			enc = kernelEnc(v)
		}
		rec.Fields = append(rec.Fields, LogField{Key: k, Value: v, Enc: enc})
	}
	return rec.Line()
}

type C16Case struct {
	Recs []C16Rec `json:"records"`
}

func (c C16Case) Text() string {
	var b strings.Builder
	for _, r := range c.Recs {
		b.WriteString(r.Line() + "\n")
	}
	return b.String()
}

// ---------------------------------------------------------------------------
// generators: names from path families

var c16Users = []string{"alice", "bob-2", "u1000", "a.b"}
var c16Hex = "0123456789abcdefABCDEF"

func genDigits(t *rapid.T, label string, n int) string {
	return rapid.StringOfN(rapid.RuneFrom([]rune("0123456789")), n, n, -1).Draw(t, label)
}

// genNumber: a decimal number as the kernel prints pids, uids, device numbers (no leading zero).
func genNumber(t *rapid.T, label string, n int) string {
	first := rapid.StringOfN(rapid.RuneFrom([]rune("123456789")), 1, 1, -1).Draw(t, label+"1")
	if n <= 1 {
		return first
	}
	return first + genDigits(t, label, n-1)
}

func genHexs(t *rapid.T, label string, n int) string {
	return rapid.StringOfN(rapid.RuneFrom([]rune("0123456789abcdef")), n, n, -1).Draw(t, label)
}

func genName(t *rapid.T) (string, string) {
	fam := pick(t, "family", []string{"home-cache", "home-config", "home-share", "home-state", "home-bin", "home-lib", "home-ssh", "home-gnupg", "home-file",
		"usr-lib", "usr-lib64", "usr-libexec", "usr-bin", "usr-sbin", "multiarch", "proc-pid", "proc-1", "proc-task", "proc-sys", "sys-pci", "sys-block", "sys-other",
		"run-user", "var-run", "run-udev", "tmp", "tmp-user", "uuid", "hexrun", "digits", "etc", "opt", "dev", "modules", "shells", "case"})
	u := pick(t, "user", c16Users)
	leaf := pick(t, "leaf", []string{"foo", "Foo.conf", "a-b_c", "x.so.1", "data.db", "1000", "cache2", ".hidden"})
	var p string
	switch fam {
	case "home-cache":
		p = "/home/" + u + "/.cache/" + leaf
	case "home-config":
		p = "/home/" + u + "/.config/" + leaf + "/x"
	case "home-share":
		p = "/home/" + u + "/.local/share/" + leaf
	case "home-state":
		p = "/home/" + u + "/.local/state/" + leaf
	case "home-bin":
		p = "/home/" + u + "/.local/bin/" + leaf
	case "home-lib":
		p = "/home/" + u + "/.local/lib/" + leaf
	case "home-ssh":
		p = "/home/" + u + "/.ssh/" + pick(t, "sshleaf", []string{"config", "known_hosts", "id_ed25519"})
	case "home-gnupg":
		p = "/home/" + u + "/.gnupg/" + leaf
	case "home-file":
		p = "/home/" + u + "/" + leaf
	case "usr-lib":
		p = "/usr/lib/" + pick(t, "libdir", []string{"firefox", "systemd", "python3.12/site-packages", "libfoo"}) + "/" + leaf
	case "usr-lib64":
		p = "/usr/lib64/" + strings.ReplaceAll(leaf, ".so", "_so") // a shared object right under a lib directory is documented noise (C14)
	case "usr-libexec":
		p = "/usr/libexec/" + strings.ReplaceAll(leaf, ".so", "_so")
	case "usr-bin":
		p = "/usr/bin/" + pick(t, "bin", []string{"foo", "shutdown", "bash", "sh", "dash", "shred", "zsh", "python3.12", "x86_64-linux-gnu-gcc"})
	case "usr-sbin":
		p = "/usr/sbin/" + leaf
	case "multiarch":
		p = "/usr/lib/" + pick(t, "triple", []string{"x86_64-linux-gnu", "i386-linux-gnu", "x86_64-linux-gnux32", "i686-linux-gnu"}) + "/" + leaf
	case "proc-pid":
		p = "/proc/" + genNumber(t, "pid", rapid.IntRange(2, 6).Draw(t, "pidlen")) + "/" // pid_max is 4194304: at most 7 digits, 6 here + pick(t, "procleaf", []string{"stat", "cmdline", "fd/", "net/dev", "mountinfo"})
	case "proc-1":
		p = "/proc/1/" + pick(t, "proc1leaf", []string{"cgroup", "environ", "sched"})
	case "proc-task":
		p = "/proc/" + genNumber(t, "pid", 4) + "/task/" + genNumber(t, "tid", 5) + "/comm"
	case "proc-sys":
		p = "/proc/sys/kernel/" + pick(t, "sysctl", []string{"osrelease", "random/boot_id", "pid_max"})
	case "sys-pci":
		p = "/sys/devices/pci0000:00/0000:00:" + genHexs(t, "slot", 2) + "." + genDigits(t, "fn", 1) + "/" + pick(t, "pcileaf", []string{"vendor", "drm/card0/uevent", "resource"})
	case "sys-block":
		p = "/sys/dev/block/" + genNumber(t, "maj", rapid.IntRange(1, 3).Draw(t, "majlen")) + ":" + genNumber(t, "min", rapid.IntRange(1, 3).Draw(t, "minlen")) + "/uevent"
	case "sys-other":
		p = "/sys/" + pick(t, "sysleaf", []string{"fs/cgroup/user.slice/cpu.max", "class/net/", "kernel/mm/transparent_hugepage/enabled", "devices/system/cpu/cpu12/online", "devices/virtual/dmi/id/product_name"})
	case "run-user":
		p = "/run/user/" + pick(t, "uid", []string{"1000", "1001", "0", "60578"}) + "/" + pick(t, "runleaf", []string{"bus", "wayland-0", "pulse/native", "dconf/user"})
	case "var-run":
		p = "/var/run/" + leaf
	case "run-udev":
		p = "/run/udev/data/" + pick(t, "udev", []string{"+pci:0000:00:02.0", "c226:0", "b8:16", "+usb:1-1:1.0", "n3"})
	case "tmp":
		p = "/tmp/" + pick(t, "tmpleaf", []string{"foo", ".X11-unix/X0", "systemd-private-" + genHexs(t, "priv", 32) + "-x.service-AbCdEf/tmp", "tmp.ABCdef1234"})
	case "tmp-user":
		p = "/tmp/user/1000/" + leaf
	case "uuid":
		sep := pick(t, "uuidsep", []string{"-", "_"})
		p = "/var/lib/x/" + genHexs(t, "u1", 8) + sep + genHexs(t, "u2", 4) + sep + genHexs(t, "u3", 4) + sep + genHexs(t, "u4", 4) + sep + genHexs(t, "u5", 12) + "/" + leaf
	case "hexrun":
		n := pick2(t, "hexlen", []int{5, 8, 15, 16, 17, 31, 32, 33, 37, 38, 39, 63, 64, 65})
		p = "/var/cache/" + pick(t, "hexpre", []string{"", "sha-", "x"}) + genHexs(t, "hex", n) + pick(t, "hexpost", []string{"", ".bin", "/obj"})
	case "digits":
		n := pick2(t, "diglen", []int{3, 5, 6, 7, 8, 9, 10, 11, 15, 16, 17, 32, 64})
		p = "/var/spool/" + pick(t, "digpre", []string{"", "job-", "q"}) + genDigits(t, "dig", n) + pick(t, "digpost", []string{"", ".log", "/x"})
	case "etc":
		p = "/etc/" + pick(t, "etcleaf", []string{"passwd", "xdg/foo.conf", "ssl/certs/ca.pem", "usr/etc/x"})
	case "opt":
		p = "/opt/" + pick(t, "optleaf", []string{"Foo/foo", "x86_64/app", "app-1000/run", "amd64-tool/bin/t"})
	case "dev":
		p = "/dev/" + pick(t, "devleaf", []string{"dri/card0", "shm/foo", "snd/pcmC0D0p", "tty12", "shm/u1000-Shm_" + genHexs(t, "shm", 8)})
	case "modules":
		p = "/usr/lib/modules/" + pick(t, "kver", []string{"6.8.0-45-generic", "6.11.3-arch1-1"}) + "/modules.dep"
	case "shells":
		p = "/usr/bin/" + pick(t, "shell", []string{"sh", "bash", "dash", "shutdown", "bashbug", "sha256sum"})
	case "att":
		p = "/att/foo/usr/bin/x"
	case "case":
		p = pick(t, "casev", []string{"/Home/Alice/.Cache/x", "/USR/LIB/foo", "/usr/Lib/foo", "/PROC/12/stat", "/home/Alice/.CONFIG/x"})
	}
	return p, fam
}

// requested masks of plain file operations ('l' only comes with a link record and its target)
var c16Masks = []string{"r", "w", "rw", "wc", "c", "d", "a", "ac", "wr", "k", "m", "rm", "rk", "rwk", "x", "wd", "rac"}

func genC16Rec(t *rapid.T, idx int) C16Rec { return genC16RecOfClass(t, idx, "") }

func genC16RecOfClass(t *rapid.T, idx int, forced string) C16Rec {
	r := C16Rec{Fields: map[string]string{}}
	r.State = pick(t, "state", []string{"ALLOWED", "DENIED", "AUDIT"})
	r.Profile = pick(t, "profile", []string{"foo", "bar", "baz//sub"})
	set := func(k, v string) {
		if _, ok := r.Fields[k]; !ok {
			r.Order = append(r.Order, k)
		}
		r.Fields[k] = v
	}
	cls := pick(t, "class", []string{"file", "file", "file", "file", "file", "exec", "link", "cap", "net", "unix", "signal", "ptrace", "dbus", "mount", "remount", "umount", "pivotroot", "mqueue", "io_uring", "userns", "rlimit", "change_onexec"})
	if forced != "" {
		cls = forced
	}
	r.Class = cls
	comm := fmt.Sprintf("tok%dq", idx)
	switch cls {
	case "file":
		name, _ := genName(t)
		set("operation", pick(t, "op", []string{"open", "mknod", "mkdir", "rmdir", "unlink", "truncate", "chmod", "getattr", "rename_src", "rename_dest", "file_mmap", "file_perm", "file_lock", "file_inherit", "file_receive"}))
		if chance(t, "classfield", 2) {
			set("class", "file")
		}
		set("profile", r.Profile)
		set("name", name)
		set("pid", "1234")
		set("comm", comm)
		m := pick(t, "mask", c16Masks)
		set("requested_mask", m)
		dm := m
		if len(m) > 1 && chance(t, "partlydenied", 3) {
			// only part of what was requested was denied: the rule still has to cover the request
			dm = ""
			for i := 0; i < len(m); i++ {
				if rapid.Bool().Draw(t, "deniedletter") {
					dm += string(m[i])
				}
			}
			if dm == "" {
				dm = m[:1]
			}
		}
		set("denied_mask", dm)
		setUIDs(t, set)
	case "exec":
		name, _ := genName(t)
		set("operation", "exec")
		set("class", "file")
		set("profile", r.Profile)
		set("name", name)
		set("pid", "1234")
		set("comm", comm)
		set("requested_mask", "x")
		set("denied_mask", "x")
		setUIDs(t, set)
		if chance(t, "target", 3) {
			set("target", pick(t, "targetv", []string{"foo//child", "bar"}))
		}
	case "link":
		name, _ := genName(t)
		tgt, _ := genName(t)
		set("operation", "link")
		set("class", "file")
		set("profile", r.Profile)
		set("name", name)
		set("pid", "1234")
		set("comm", comm)
		set("requested_mask", "l")
		set("denied_mask", "l")
		setUIDs(t, set)
		set("target", tgt)
	case "cap":
		set("operation", "capable")
		set("class", "cap")
		set("profile", r.Profile)
		set("pid", "1234")
		set("comm", comm)
		set("capability", "12")
		set("capname", pick(t, "capname", reqCaps))
	case "net":
		set("operation", pick(t, "netop", []string{"create", "connect", "bind", "sendmsg"}))
		set("class", "net")
		set("profile", r.Profile)
		set("pid", "1234")
		set("comm", comm)
		set("family", pick(t, "family", []string{"inet", "inet6", "netlink", "packet", "bluetooth"}))
		set("sock_type", pick(t, "socktype", []string{"stream", "dgram", "raw", "seqpacket"}))
		set("protocol", pick(t, "proto", []string{"0", "6", "17"}))
		m := pick(t, "netmask", []string{"create", "connect", "send receive", "bind"})
		set("requested_mask", m)
		set("denied_mask", m)
	case "unix":
		set("operation", pick(t, "unixop", []string{"connect", "sendmsg", "file_perm"}))
		set("class", "net")
		set("profile", r.Profile)
		set("pid", "1234")
		set("comm", comm)
		set("family", "unix")
		set("sock_type", pick(t, "socktype", []string{"stream", "dgram"}))
		set("protocol", "0")
		m := pick(t, "unixmask", []string{"send receive", "connect", "receive", "send receive connect"})
		set("requested_mask", m)
		set("denied_mask", m)
		set("addr", pick(t, "addr", []string{"none", "@/tmp/.X11-unix/X0", "@/tmp/dbus-AbCdEf"}))
		set("peer_addr", pick(t, "peeraddr", []string{"none", "@/tmp/.ICE-unix/1234"}))
		set("peer", pick(t, "peer", []string{"unconfined", "xorg", "gnome-shell"}))
	case "signal":
		set("operation", "signal")
		set("class", "signal")
		set("profile", r.Profile)
		set("pid", "1234")
		set("comm", comm)
		m := pick(t, "sigmask", []string{"send", "receive"})
		set("requested_mask", m)
		set("denied_mask", m)
		set("signal", pick(t, "signal", []string{"term", "kill", "hup", "usr1", "rtmin+8", "exists"}))
		set("peer", pick(t, "peer", []string{"unconfined", "systemd", "foo//bar"}))
	case "ptrace":
		set("operation", "ptrace")
		set("class", "ptrace")
		set("profile", r.Profile)
		set("pid", "1234")
		set("comm", comm)
		m := pick(t, "ptmask", []string{"read", "trace", "readby", "tracedby"})
		set("requested_mask", m)
		set("denied_mask", m)
		set("peer", pick(t, "peer", []string{"unconfined", "systemd", "foo//bar"}))
	case "dbus":
		op := pick(t, "dbusop", []string{"dbus_method_call", "dbus_signal", "dbus_bind"})
		set("operation", op)
		set("bus", pick(t, "bus", []string{"system", "session"}))
		if op == "dbus_bind" {
			set("name", pick(t, "bindname", []string{"org.freedesktop.Foo", "org.gnome.Shell"}))
			set("mask", "bind")
			set("pid", "1234")
			set("label", r.Profile)
		} else {
			set("path", pick(t, "dpath", []string{"/org/freedesktop/DBus", "/org/gnome/Foo/1", "/"}))
			set("interface", pick(t, "iface", []string{"org.freedesktop.DBus", "org.gnome.Foo"}))
			set("member", pick(t, "member", []string{"Hello", "GetAll", "PropertiesChanged"}))
			set("mask", pick(t, "dmask", []string{"send", "receive"}))
			set("name", pick(t, "dname", []string{":1.42", "org.freedesktop.DBus", ":1.7", ":not.active.yet"}))
			set("pid", "1234")
			set("label", r.Profile)
			set("peer_pid", "99")
			set("peer_label", pick(t, "plabel", []string{"unconfined", "dbus-system", "gnome-shell"}))
		}
	case "mount", "remount":
		set("operation", "mount")
		set("class", "mount")
		set("info", "failed flags match")
		set("error", "-13")
		set("profile", r.Profile)
		name, _ := genName(t)
		set("name", strings.TrimRight(name, "/")+"/")
		set("pid", "1234")
		set("comm", comm)
		set("fstype", pick(t, "fstype", []string{"tmpfs", "proc", "overlay", "ext4"}))
		set("srcname", pick(t, "srcname", []string{"tmpfs", "/dev/sda1", "overlay"}))
		fl := pick(t, "flags", []string{"rw, nosuid", "ro, nosuid, nodev", "rw, rbind", "rw"})
		if cls == "remount" {
			fl = "ro, remount, bind"
		}
		set("flags", fl)
	case "umount":
		set("operation", "umount")
		set("class", "mount")
		set("profile", r.Profile)
		name, _ := genName(t)
		set("name", strings.TrimRight(name, "/")+"/")
		set("pid", "1234")
		set("comm", comm)
	case "pivotroot":
		set("operation", "pivotroot")
		set("class", "mount")
		set("profile", r.Profile)
		nr := pick(t, "newroot", []string{"/run/systemd/mount-rootfs/", "/newroot/", "/run/user/1000/rootfs/", "/var/lib/machines/a/"})
		set("name", nr)
		set("pid", "1234")
		set("comm", comm)
		set("srcname", pick(t, "putold", []string{nr + "old/", nr + ".pivot/", nr}))
	case "mqueue":
		set("operation", pick(t, "mqop", []string{"open", "unlink", "getattr"}))
		set("class", pick(t, "mqclass", []string{"posix_mqueue", "sysv_mqueue"}))
		set("profile", r.Profile)
		set("name", pick(t, "mqname", []string{"/myqueue", "/q2", "123"}))
		set("pid", "1234")
		set("comm", comm)
		m := pick(t, "mqmask", []string{"create read", "read", "write", "delete"})
		set("requested", m)
		set("denied", m)
	case "io_uring":
		set("operation", "uring_sqpoll")
		set("class", "io_uring")
		set("profile", r.Profile)
		set("pid", "1234")
		set("comm", comm)
		m := pick(t, "iomask", []string{"sqpoll", "override_creds"})
		set("requested", m)
		set("denied", m)
	case "userns":
		set("operation", "userns_create")
		set("class", "namespace")
		set("info", "Userns create restricted - failed to find unprivileged_userns profile")
		set("error", "-13")
		set("profile", r.Profile)
		set("pid", "1234")
		set("comm", comm)
		set("requested", "userns_create")
		set("denied", "userns_create")
	case "rlimit":
		set("operation", "setrlimit")
		set("class", "rlimits")
		set("profile", r.Profile)
		set("pid", "1234")
		set("comm", comm)
		set("rlimit", pick(t, "rlimit", []string{"nofile", "memlock", "nproc"}))
		set("value", pick(t, "rlvalue", []string{"1024", "65536"}))
	case "change_onexec":
		set("operation", "change_onexec")
		set("class", "file")
		set("info", "label not found")
		set("error", "-2")
		set("profile", r.Profile)
		set("name", "/usr/bin/newprog")
		set("pid", "1234")
		set("comm", comm)
		set("target", pick(t, "cotarget", []string{"foo//child", "other"}))
	}
	return r
}

// ---------------------------------------------------------------------------
// oracle

var maskPerm = map[byte]uint32{'r': permR, 'w': permW, 'a': permA, 'c': permW, 'd': permW, 'k': permK, 'm': permM, 'l': permL, 'x': permX}

func profilesFromLog(text string) (res map[string]*aa.Profile, err error) {
	defer func() {
		if p := recover(); p != nil {
			err = fmt.Errorf("aa-log --rules pipeline panicked: %v", p)
		}
	}()
	l := logs.New(strings.NewReader(text), "")
	res = l.ParseToProfiles()
	for _, p := range res {
		p.Merge(nil)
		p.Sort()
		p.Format()
	}
	return res, nil
}

func printRulesOfKinds(rules aa.Rules, kinds ...aa.Kind) string {
	var sel aa.Rules
	for _, r := range rules {
		if r == nil {
			continue
		}
		for _, k := range kinds {
			if r.Kind() == k {
				sel = append(sel, r)
			}
		}
	}
	aa.IndentationLevel = 1
	defer func() { aa.IndentationLevel = 0 }()
	return sel.String()
}

func fieldHas(r RS, field, want string) bool {
	if want == "" {
		return true
	}
	if v := r.Str(field); v != "" {
		return strings.Trim(v, `"`) == want
	}
	for _, x := range r.List(field) {
		if x == want {
			return true
		}
	}
	return false
}

var (
	c16PatMu    sync.Mutex
	c16PatCache = map[string]*DFA{}
)

// patternMatches: does the (possibly generalised) path pattern of a rule still match the recorded
// name under the shipped tunables? Judged by the reference parser: the pattern is compiled as a
// file rule and the recorded name walked through the automaton.
func patternMatches(pattern, name string) (ok, inconclusive bool, err error) {
	if pattern == "" {
		return true, false, nil // no path condition: every path
	}
	c16PatMu.Lock()
	d, hit := c16PatCache[pattern]
	c16PatMu.Unlock()
	if !hit {
		ov, oerr := shippedTunablesOverlay()
		if oerr != nil {
			return false, false, fmt.Errorf("INFRA: %v", oerr)
		}
		cp, cerr := Ref{Base: ov}.CompileOne(stubOf("  " + pattern + " r,"))
		if cerr == ErrRefTimeout {
			return false, true, nil
		}
		if cerr != nil {
			return false, false, fmt.Errorf("the pattern %q does not load as a path: %v", pattern, firstLine(cerr))
		}
		d = cp.File()
		c16PatMu.Lock()
		c16PatCache[pattern] = d
		c16PatMu.Unlock()
	}
	a, _ := d.Perms(name)
	return (a>>halfBits)&permR != 0 || a&permR != 0, false, nil
}

func qualifierOK(r RS, state string) bool {
	return r.Bool("Audit") == (state == "AUDIT") && r.Str("AccessType") != "deny"
}

// c16Oracle checks that every record is covered by the rules generated under its profile.
func c16Oracle(c C16Case) (inconclusive bool, err error) {
	text := c.Text()
	profiles, err := profilesFromLog(text)
	if err != nil {
		return false, fmt.Errorf("%v\n%s", err, text)
	}
	compiled := map[string]*CompiledProfile{}
	for i, rec := range c.Recs {
		p, ok := profiles[rec.Profile]
		if !ok {
			return false, fmt.Errorf("record %d: no rules at all under its profile %q (profiles: %v)\n%s", i, rec.Profile, keysOf(profiles), rec.Line())
		}
		rs := rulesToRS(p.Rules)
		findKind := func(kind string, pred func(RS) bool) bool {
			for _, r := range rs {
				if r.Kind == kind && qualifierOK(r, rec.State) && pred(r) {
					return true
				}
			}
			return false
		}
		// pathOK: the rule's path pattern (quotes aside) matches the recorded path
		var pathErr error
		pathOK := func(pattern, recorded string) bool {
			ok, inc, err := patternMatches(strings.Trim(pattern, `"`), recorded)
			if inc {
				inconclusive = true
				return true
			}
			if err != nil {
				pathErr = err
				return false
			}
			return ok
		}
		_ = pathErr
		f := rec.Fields
		fail := func(what string) error {
			return fmt.Errorf("record %d (%s) is not covered: %s\n--- record\n%s\n--- rules generated under %q\n%s", i, rec.Class, what, rec.Line(), rec.Profile, printRulesOfKinds(p.Rules, aa.FILE, aa.LINK, aa.CAPABILITY, aa.NETWORK, aa.UNIX, aa.SIGNAL, aa.PTRACE, aa.DBUS, aa.MOUNT, aa.REMOUNT, aa.UMOUNT, aa.PIVOTROOT, aa.MQUEUE, aa.IOURING, aa.USERNS, aa.RLIMIT, aa.CHANGEPROFILE))
		}
		switch rec.Class {
		case "file", "exec", "link":
			cp, ok := compiled[rec.Profile+"|"+rec.State]
			if !ok {
				// the file and link rules of the right qualifier, as the reference parser reads them
				var sel aa.Rules
				for _, r := range p.Rules {
					if r == nil || (r.Kind() != aa.FILE && r.Kind() != aa.LINK) {
						continue
					}
					if qualifierOK(FromRule(r), rec.State) {
						sel = append(sel, r)
					}
				}
				aa.IndentationLevel = 1
				body := sel.String()
				aa.IndentationLevel = 0
				// the audit qualifier does not change what is granted
				ov, oerr := shippedTunablesOverlay()
				if oerr != nil {
					return false, fmt.Errorf("INFRA: %v", oerr)
				}
				var cerr error
				cp, cerr = Ref{Base: ov}.CompileOne(stubOf(strings.TrimRight(body, "\n")))
				if cerr == ErrRefTimeout {
					return true, nil
				}
				if cerr != nil {
					return false, fmt.Errorf("the file rules generated under %q are rejected by the reference parser (shipped tunables): %v\n--- rules\n%s--- log\n%s", rec.Profile, firstLine(cerr), body, text)
				}
				compiled[rec.Profile+"|"+rec.State] = cp
			}
			a1, _ := cp.File().Perms(f["name"])
			half := a1 & 0x3fff
			who := "the owner"
			if f["fsuid"] != f["ouid"] || f["ouid"] == "0" {
				// the access was made by somebody who does not own the file (or by root, for whom
				// the tool never sets owner): the rule must not be an owner rule
				half = (a1 >> halfBits) & 0x3fff
				who = "a non-owner"
			}
			var need uint32
			for i := 0; i < len(f["requested_mask"]); i++ {
				need |= maskPerm[f["requested_mask"][i]]
			}
			if rec.Class == "link" {
				need = permL
			}
			if half&need != need {
				return false, fail(fmt.Sprintf("for %s, the generated file rules grant %#x on %q, the record requested %q (%#x)", who, half&permMask, f["name"], f["requested_mask"], need))
			}
			if rec.Class == "link" && !findKind("link", func(r RS) bool { return true }) {
				return false, fail("no link rule")
			}
		case "cap":
			if !findKind("capability", func(r RS) bool { return fieldHas(r, "Names", f["capname"]) }) {
				return false, fail("no capability rule for " + f["capname"])
			}
		case "net":
			if !findKind("network", func(r RS) bool { return fieldHas(r, "Domain", f["family"]) && fieldHas(r, "Type", f["sock_type"]) }) {
				return false, fail("no network rule for " + f["family"] + " " + f["sock_type"])
			}
		case "unix":
			if !findKind("unix", func(r RS) bool {
				for _, a := range strings.Fields(f["requested_mask"]) {
					if !fieldHas(r, "Access", a) {
						return false
					}
				}
				return fieldHas(r, "Type", f["sock_type"]) && fieldHas(r, "Address", f["addr"]) && fieldHas(r, "PeerAddr", f["peer_addr"]) && fieldHas(r, "PeerLabel", f["peer"])
			}) {
				return false, fail("no unix rule with the recorded type, addresses, peer and access")
			}
		case "signal":
			if !findKind("signal", func(r RS) bool {
				return fieldHas(r, "Access", f["requested_mask"]) && fieldHas(r, "Set", f["signal"]) && fieldHas(r, "Peer", f["peer"])
			}) {
				return false, fail("no signal rule with the recorded access, signal and peer")
			}
		case "ptrace":
			if !findKind("ptrace", func(r RS) bool { return fieldHas(r, "Access", f["requested_mask"]) && fieldHas(r, "Peer", f["peer"]) }) {
				return false, fail("no ptrace rule with the recorded access and peer")
			}
		case "dbus":
			if !findKind("dbus", func(r RS) bool {
				if f["mask"] == "bind" {
					return fieldHas(r, "Access", "bind") && fieldHas(r, "Bus", f["bus"]) && fieldHas(r, "Name", f["name"])
				}
				peerOK := fieldHas(r, "PeerName", f["name"]) || (strings.HasPrefix(f["name"], ":") && r.Str("PeerName") == "@{busname}")
				return fieldHas(r, "Access", f["mask"]) && fieldHas(r, "Bus", f["bus"]) && fieldHas(r, "Path", f["path"]) &&
					fieldHas(r, "Interface", f["interface"]) && fieldHas(r, "Member", f["member"]) && peerOK && fieldHas(r, "PeerLabel", f["peer_label"])
			}) {
				return false, fail("no dbus rule with the recorded bus, path, interface, member, peer and access")
			}
		case "mount", "remount":
			kind := "mount"
			if rec.Class == "remount" {
				kind = "remount"
			}
			if !findKind(kind, func(r RS) bool {
				// options=( ) is matched as a whole: the rule covers the recorded mount only if it
				// names exactly the recorded flags
				nflags := 0
				for _, o := range strings.Split(f["flags"], ", ") {
					if o == "" {
						continue
					}
					nflags++
					if !fieldHas(r, "Options", o) {
						return false
					}
				}
				if len(r.List("Options")) != nflags {
					return false
				}
				if kind == "mount" && !fieldHas(r, "Source", f["srcname"]) {
					return false
				}
				return fieldHas(r, "FsType", f["fstype"]) && pathOK(r.Str("MountPoint"), f["name"])
			}) {
				return false, fail("no " + kind + " rule with the recorded fstype, flags, source and mount point")
			}
		case "umount":
			if !findKind("umount", func(r RS) bool { return pathOK(r.Str("MountPoint"), f["name"]) }) {
				return false, fail("no umount rule on the recorded mount point")
			}
		case "pivotroot":
			// the kernel records the new root as name and where the old root is put as srcname
			if !findKind("pivot_root", func(r RS) bool {
				return pathOK(r.Str("NewRoot"), f["name"]) && pathOK(r.Str("OldRoot"), f["srcname"])
			}) {
				return false, fail("no pivot_root rule with the recorded new root and old root")
			}
		case "mqueue":
			if !findKind("mqueue", func(r RS) bool {
				for _, a := range strings.Fields(f["requested"]) {
					if !fieldHas(r, "Access", a) {
						return false
					}
				}
				// the kernel's class names the kind of queue
				wantType := map[string]string{"posix_mqueue": "posix", "sysv_mqueue": "sysv"}[f["class"]]
				return fieldHas(r, "Name", f["name"]) && (wantType == "" || fieldHas(r, "Type", wantType))
			}) {
				return false, fail("no mqueue rule with the recorded queue, type and access")
			}
		case "io_uring":
			if !findKind("io_uring", func(r RS) bool { return fieldHas(r, "Access", f["requested"]) }) {
				return false, fail("no io_uring rule for " + f["requested"])
			}
		case "userns":
			if !findKind("userns", func(r RS) bool { return true }) {
				return false, fail("no userns rule")
			}
		case "rlimit":
			found := false
			for _, r := range rs {
				if r.Kind == "rlimit" && r.Str("Key") == f["rlimit"] && r.Str("Value") == f["value"] {
					found = true
				}
			}
			if !found {
				return false, fail("no rlimit rule for " + f["rlimit"])
			}
		case "change_onexec":
			if !findKind("change_profile", func(r RS) bool { return fieldHas(r, "ProfileName", f["target"]) }) {
				return false, fail("no change_profile rule to " + f["target"])
			}
		}
	}
	return false, nil
}

func keysOf(m map[string]*aa.Profile) []string {
	var r []string
	for k := range m {
		r = append(r, k)
	}
	return r
}

func genC16Case(t *rapid.T) C16Case {
	var c C16Case
	n := rapid.IntRange(1, 6).Draw(t, "nrec")
	for i := 0; i < n; i++ {
		r := genC16Rec(t, i)
		// near-duplicate: an earlier record of the same class once more, with one field taken
		// from the fresh one (another peer address, another signal, another mask ...): still a
		// distinct access that some rule has to cover after merging
		if i > 0 && chance(t, "neardup", 3) {
			base := c.Recs[rapid.IntRange(0, i-1).Draw(t, "dupof")]
			if base.Class == r.Class || chance(t, "sameclass", 2) {
				if base.Class != r.Class {
					r = genC16RecOfClass(t, i, base.Class)
				}
				var keys []string
				for _, k := range r.Order {
					if _, ok := base.Fields[k]; ok && k != "comm" && k != "pid" && k != "operation" && k != "class" && k != "profile" && k != "label" && k != "denied_mask" {
						keys = append(keys, k)
					}
				}
				if base.Fields["operation"] != r.Fields["operation"] || len(base.Order) != len(r.Order) {
					keys = nil // another record shape (dbus bind vs method call, mount vs remount): fields do not mix
				}
				if len(keys) > 0 {
					k := keys[rapid.IntRange(0, len(keys)-1).Draw(t, "dupfield")]
					nr := C16Rec{Class: base.Class, State: base.State, Profile: base.Profile, Fields: map[string]string{}, Order: append([]string{}, base.Order...)}
					for fk, fv := range base.Fields {
						nr.Fields[fk] = fv
					}
					nr.Fields[k] = r.Fields[k]
					if k == "name" && chance(t, "casevariant", 2) {
						// the same name in another letter case is another file
						b := base.Fields["name"]
						if i := strings.LastIndex(strings.TrimRight(b, "/"), "/"); i >= 0 && i+1 < len(b) {
							nr.Fields[k] = b[:i+1] + strings.ToUpper(b[i+1:i+2]) + b[i+2:]
							if nr.Fields[k] == b {
								nr.Fields[k] = b[:i+1] + strings.ToLower(b[i+1:i+2]) + b[i+2:]
							}
						}
					}
					if k == "requested_mask" {
						if _, ok := nr.Fields["denied_mask"]; ok {
							nr.Fields["denied_mask"] = r.Fields["denied_mask"]
						}
					}
					nr.Fields["comm"] = r.Fields["comm"]
					if chance(t, "otherstate", 3) {
						// the same access once allowed, once audited: two rules, two qualifiers
						nr.State = r.State
						if _, ok := nr.Fields["apparmor"]; ok {
							nr.Fields["apparmor"] = r.State
						}
					}
					r = nr
				}
			}
		}
		c.Recs = append(c.Recs, r)
	}
	return c
}

// c16Excluded: regions of listed known findings.
// execTargetConflict: two exec records of one path under one profile and qualifier
// whose targets differ (one may have none).
func execTargetConflict(c C16Case) bool {
	seen := map[string]string{}
	for _, r := range c.Recs {
		if (r.Class != "exec" && r.Class != "file") || !strings.Contains(r.Fields["requested_mask"], "x") {
			continue
		}
		audit := "plain"
		if r.State == "AUDIT" {
			audit = "audit"
		}
		k := r.Profile + "|" + audit + "|" + r.Fields["name"]
		if t, ok := seen[k]; ok && t != r.Fields["target"] {
			return true
		}
		seen[k] = r.Fields["target"]
	}
	// the same finding through two different names that are generalised to one pattern
	// (/proc/10/ and /proc/100/, two home directories): identified by its symptom in the
	// printed rules, one path with an exec access and two different targets (one may be none)
	profiles, err := profilesFromLog(c.Text())
	if err != nil {
		return false
	}
	for _, p := range profiles {
		targets := map[string]map[string]bool{}
		for _, r := range p.Rules {
			f, ok := r.(*aa.File)
			if !ok || f == nil || !strings.Contains(strings.ToLower(strings.Join(f.Access, "")), "x") {
				continue
			}
			k := fmt.Sprintf("%v|%s", f.AccessType, f.Path) // owner and audit do not keep the two apart: the parser merges all rules of a path
			if targets[k] == nil {
				targets[k] = map[string]bool{}
			}
			targets[k][f.Target] = true
		}
		for _, ts := range targets {
			if len(ts) > 1 {
				return true
			}
		}
	}
	return false
}

func c16Excluded(c C16Case) string {
	if IsKnown("C16", "log:exec-target-conflict") && execTargetConflict(c) {
		return "log:exec-target-conflict"
	}
	for _, r := range c.Recs {
		for _, k := range KnownKeys("C16", "") {
			if c16Matches(k, r) {
				return k
			}
		}
	}
	return ""
}

// c16Matches: does the record fall in the region of a listed finding?
func c16Matches(key string, r C16Rec) bool {
	name := r.Fields["name"]
	switch key {
	case "log:exec-target-conflict":
		return false // a property of the whole case, see execTargetConflict
	case "generalise:sh-prefix":
		return (r.Class == "file" || r.Class == "exec" || r.Class == "link") && (strings.HasPrefix(name, "/usr/bin/sh") || strings.HasPrefix(name, "/usr/bin/bash") || strings.HasPrefix(name, "/usr/bin/dash")) &&
			name != "/usr/bin/sh" && name != "/usr/bin/bash" && name != "/usr/bin/dash"
	case "generalise:case-folded-paths":
		return r.Class == "file" && name != strings.ToLower(name) && strings.ContainsAny(name, "ABCDEFGHIJKLMNOPQRSTUVWXYZ")
	}
	return false
}

// c16UIDs holds user ids that are decimal prefixes / extensions of each other, so that a textual
// comparison of fsuid and ouid looser than equality is visible.
var c16UIDs = []string{"1000", "0", "1001", "100", "10", "1", "10000", "65534", "104"}

func setUIDs(t *rapid.T, set func(k, v string)) {
	o := pick(t, "ouid", c16UIDs)
	fs := o
	if !chance(t, "sameuid", 2) {
		fs = pick(t, "fsuid", c16UIDs)
	}
	set("fsuid", fs)
	set("ouid", o)
}

func TestC16_Cover(t *testing.T) {
	if err := haveBins(); err != nil {
		t.Fatalf("INFRA: %v", err)
	}
	ev := NewEv(t, "C16", "cover", "log files of 1-6 well-formed kernel / dbus-daemon records of every class the tool maps (file operations with masks from xwracdkml, exec with and without target, link, capability, network, unix, signal, ptrace, dbus incl. bind, mount / remount / umount / pivot_root, mqueue, io_uring, userns, rlimit, change_onexec), ALLOWED / DENIED / AUDIT, fsuid = / != ouid, names from path families (home dirs, /usr/lib*, /usr/bin incl. shells and look-alikes, multiarch triples, /proc/<pid>/task/<tid>, /sys pci and block devices, /run/user/<uid>, udev data, /tmp, uuid / hex / decimal runs of every length around the rewrite thresholds, case variants); oracle: after logs.New + ParseToProfiles + Merge/Sort/Format (what aa-log -r does) the record's profile holds a rule of the right kind and qualifier that covers it: for file records the generated rules are compiled by the reference parser over the shipped tunables and the recorded name must be granted the requested permissions in the owner or other half according to fsuid/ouid; for the other classes the recorded values are in the rule's fields. Non-trivial: a record whose name was rewritten by generalisation; distinct by (class, name, mask)")
	rapid.Check(t, func(t *rapid.T) {
		c := genC16Case(t)
		if key := c16Excluded(c); key != "" {
			ev.ExcludedKnown(key)
			ev.Case("", "excluded")
			return
		}
		inc, err := c16Oracle(c)
		key := ""
		for _, r := range c.Recs {
			if n := r.Fields["name"]; n != "" && (r.Class == "file" || r.Class == "exec" || r.Class == "link") {
				key += r.Class + "|" + n + "|" + r.Fields["requested_mask"] + ";"
			}
			ev.Class("class:" + r.Class)
		}
		if inc {
			ev.Inconclusive()
		}
		ev.Case(key)
		ev.Sample(map[string]any{"log": c.Text()})
		if err != nil {
			if strings.HasPrefix(err.Error(), "INFRA") {
				t.Fatalf("%v", err)
			}
			if Explore(firstLine(err), err) {
				return
			}
			t.Fatalf("%s", ev.Fail(c, "", "%v", err))
		}
	})
	ExploreReport(t)
}

// ---------------------------------------------------------------------------
// C12 (logs): the rules printed from logs mean the same to the reference parser

var c12LogStats struct{ judged, discarded, inconclusive int }

func c12LogOracle(c C16Case) error {
	profiles, err := profilesFromLog(c.Text())
	if err != nil {
		return err
	}
	for name, p := range profiles {
		var abi3 aa.Rules
		var canon []string
		for _, r := range p.Rules {
			if r == nil {
				continue
			}
			if containsStr(abi3Kinds, r.Kind().String()) {
				abi3 = append(abi3, r)
				canon = append(canon, canonicalPrint(FromRule(r)))
			}
		}
		if len(abi3) == 0 {
			continue
		}
		aa.IndentationLevel = 1
		text := abi3.String()
		aa.IndentationLevel = 0
		// rules generated from well-formed log records must load, whatever their values are
		if ov, oerr := shippedTunablesOverlay(); oerr == nil {
			if ok, msg := (Ref{Base: ov, Features: true}).Accepts(stubOf(strings.TrimRight(text, "\n"))); !ok && !strings.Contains(msg, "timed out") {
				return fmt.Errorf("profile %q generated from the log is rejected by the reference parser: %s\n--- rules\n%s--- log\n%s", name, firstLine(fmt.Errorf("%s", strings.ReplaceAll(msg, "Cache read/write disabled: interface file missing. (Kernel needs AppArmor 2.4 compatibility patch.)\n", ""))), text, c.Text())
			}
		}
		inc, disc, err := c12Compare(strings.TrimRight(text, "\n"), strings.Join(canon, "\n"))
		switch {
		case inc:
			c12LogStats.inconclusive++
			continue
		case disc:
			c12LogStats.discarded++
			continue
		}
		c12LogStats.judged++
		if err != nil {
			return fmt.Errorf("profile %q generated from the log: %v\n--- log\n%s", name, err, c.Text())
		}
	}
	return nil
}

func TestC12_Logs(t *testing.T) {
	if err := haveBins(); err != nil {
		t.Fatalf("INFRA: %v", err)
	}
	ev := NewEv(t, "C12", "logs", "rules printed from generated log records (the C16 generator) after Merge/Sort/Format, restricted to the kinds AppArmor 3 knows; same oracle as 'rules': accepted by the reference parser and equivalent to the canonical rendering of the rule fields. Non-trivial: every case with >= 1 rule; distinct by log text")
	rapid.Check(t, func(t *rapid.T) {
		c := genC16Case(t)
		if key := c12LogExcluded(c); key != "" {
			ev.ExcludedKnown(key)
			ev.Case("", "excluded")
			return
		}
		before := c12LogStats
		err := c12LogOracle(c)
		for i := before.judged; i < c12LogStats.judged; i++ {
			ev.Class("profile-block:judged")
		}
		for i := before.discarded; i < c12LogStats.discarded; i++ {
			ev.Class("profile-block:discarded (the reference rejects the canonical text too: values not valid for AppArmor 3)")
		}
		ev.Case(c.Text())
		ev.Sample(map[string]any{"log": c.Text()})
		if err != nil {
			if strings.HasPrefix(err.Error(), "INFRA") {
				t.Fatalf("%v", err)
			}
			if Explore(firstLine(err), err) {
				return
			}
			t.Fatalf("%s", ev.Fail(c, "", "%v", err))
		}
	})
	ExploreReport(t)
}

func c12LogExcluded(c C16Case) string {
	for _, r := range c.Recs {
		if r.Class == "unix" && IsKnown("C12", "log:unix-protocol") {
			return "log:unix-protocol"
		}
	}
	if IsKnown("C12", "log:exec-target-conflict") && execTargetConflict(c) {
		return "log:exec-target-conflict"
	}
	return ""
}

// TestC16_Witnesses: fixed witnesses of listed and repaired findings.
func TestC16_Witnesses(t *testing.T) {
	if err := haveBins(); err != nil {
		t.Fatalf("INFRA: %v", err)
	}
	ev := NewEv(t, "C16", "witnesses", "fixed witnesses of listed and repaired findings")
	file := func(name, mask string, extra map[string]string) C16Case {
		r := C16Rec{Class: "file", State: "ALLOWED", Profile: "foo", Fields: map[string]string{}}
		for _, kv := range [][2]string{{"operation", "open"}, {"class", "file"}, {"profile", "foo"}, {"name", name}, {"pid", "1"}, {"comm", "tok0q"}, {"requested_mask", mask}, {"denied_mask", mask}, {"fsuid", "1000"}, {"ouid", "0"}} {
			r.Fields[kv[0]] = kv[1]
			r.Order = append(r.Order, kv[0])
		}
		for k, v := range extra {
			r.Fields[k] = v
			r.Order = append(r.Order, k)
		}
		return C16Case{Recs: []C16Rec{r}}
	}
	execT := file("/usr/bin/preconv", "x", map[string]string{"target": "man_groff"})
	execT.Recs[0].Class = "exec"
	execT.Recs[0].Fields["operation"] = "exec"
	execPlain := file("/usr/bin/preconv", "x", nil)
	execPlain.Recs[0].Class = "exec"
	execPlain.Recs[0].Fields["operation"] = "exec"
	execPlain.Recs[0].Fields["comm"] = "tok1q"
	execPair := C16Case{Recs: []C16Rec{execT.Recs[0], execPlain.Recs[0]}}
	ws := []struct {
		key, what string
		c         C16Case
	}{
		{"", "block device numbers are not dbus names", file("/sys/dev/block/8:16/uevent", "r", nil)},
		{"", "udev data names are not dbus names", file("/run/udev/data/b8:16", "r", nil)},
		{"log:exec-target-conflict", "exec of one path with and without a target yields 'ix' and 'ix -> target' side by side, which does not load", execPair},
	}
	for i, w := range ws {
		ev.Case(fmt.Sprintf("w%d", i))
		ev.Sample(map[string]any{"log": w.c.Text()})
		_, err := c16Oracle(w.c)
		if err == nil {
			continue
		}
		if w.key != "" && IsKnown("C16", w.key) {
			ev.KnownFinding(w.key, w.what)
			continue
		}
		ev.Violate(w.c, w.key, "witness %q: %v", w.what, err)
		t.Errorf("witness %q: %v", w.what, err)
	}
}

// TestC12_LogWitnesses: fixed witnesses of the listed log-printing findings.
func TestC12_LogWitnesses(t *testing.T) {
	if err := haveBins(); err != nil {
		t.Fatalf("INFRA: %v", err)
	}
	ev := NewEv(t, "C12", "log-witnesses", "fixed witnesses of listed findings about rules printed from logs")
	mk := func(class string, kv ...string) C16Case {
		r := C16Rec{Class: class, State: "ALLOWED", Profile: "foo", Fields: map[string]string{}}
		for i := 0; i+1 < len(kv); i += 2 {
			r.Fields[kv[i]] = kv[i+1]
			r.Order = append(r.Order, kv[i])
		}
		return C16Case{Recs: []C16Rec{r}}
	}
	ws := []struct {
		key, what string
		c         C16Case
	}{
		{"log:unix-protocol", "unix rule printed with protocol=0", mk("unix", "operation", "connect", "class", "net", "profile", "foo", "pid", "1", "comm", "tok0q", "family", "unix", "sock_type", "stream", "protocol", "0", "requested_mask", "send receive", "denied_mask", "send receive", "addr", "none", "peer_addr", "@/tmp/.X11-unix/X0", "peer", "xorg")},
		{"log:exec-target-conflict", "exec rules printed as 'ix' and 'ix -> target' for one path", C16Case{Recs: []C16Rec{
			mk("exec", "operation", "exec", "class", "file", "profile", "foo", "name", "/usr/bin/preconv", "pid", "1", "comm", "tok0q", "requested_mask", "x", "denied_mask", "x", "fsuid", "1000", "ouid", "0", "target", "man_groff").Recs[0],
			mk("exec", "operation", "exec", "class", "file", "profile", "foo", "name", "/usr/bin/preconv", "pid", "1", "comm", "tok1q", "requested_mask", "x", "denied_mask", "x", "fsuid", "1000", "ouid", "0").Recs[0]}}},
	}
	for i, w := range ws {
		ev.Case(fmt.Sprintf("w%d", i))
		ev.Sample(map[string]any{"log": w.c.Text()})
		err := c12LogOracle(w.c)
		if err == nil {
			continue
		}
		if IsKnown("C12", w.key) {
			ev.KnownFinding(w.key, w.what)
			continue
		}
		ev.Violate(w.c, w.key, "witness %q: %v", w.what, err)
		t.Errorf("witness %q: %v", w.what, err)
	}
}

func TestC16_Replay(t *testing.T) {
	path := os.Getenv("VERIF_REPLAY")
	if path == "" {
		t.Skip("no VERIF_REPLAY")
	}
	var c C16Case
	rf, err := LoadReplay(path, &c)
	if err != nil {
		t.Fatal(err)
	}
	ev := NewEv(t, "C16", "replay", "replay of one saved case")
	ev.Case("replay")
	if _, oerr := c16Oracle(c); oerr != nil {
		if key := c16Excluded(c); key != "" {
			ev.KnownFinding(key, firstLine(oerr))
			return
		}
		ev.Violate(json.RawMessage(rf.Case), "", "%v", oerr)
		t.Fatalf("%v", oerr)
	}
}
