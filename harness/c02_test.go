package harness

// C02 — prebuild output is reproducible: same tree and configuration, same bytes.

import (
	"crypto/sha256"
	"encoding/hex"
	"encoding/json"
	"fmt"
	"os"
	"os/exec"
	"path/filepath"
	"sort"
	"strings"
	"sync"
	"testing"

	"github.com/roddhjav/apparmor.d/pkg/paths"
	"github.com/roddhjav/apparmor.d/pkg/prebuild"
	"github.com/roddhjav/apparmor.d/pkg/prebuild/builder"
	"github.com/roddhjav/apparmor.d/pkg/prebuild/directive"
	"pgregory.net/rapid"
)

var buildSubdirs = []string{"apparmor.d", "systemd", "share"}

// freshManifests caches the manifest of a fresh build per configuration.
var (
	freshMu   sync.Mutex
	freshMemo = map[string]Manifest{}
)

func freshManifest(c Config) (Manifest, error) {
	freshMu.Lock()
	if m, ok := freshMemo[c.String()]; ok {
		freshMu.Unlock()
		return m, nil
	}
	freshMu.Unlock()
	b, err := BuildShipped(c, false)
	defer b.Clean()
	if err != nil {
		return nil, err
	}
	m, err := ManifestOf(b.Root(), buildSubdirs...)
	if err != nil {
		return nil, err
	}
	freshMu.Lock()
	freshMemo[c.String()] = m
	freshMu.Unlock()
	return m, nil
}

type C02Step struct {
	Op     string `json:"op"` // build | pollute
	Config Config `json:"config,omitempty"`
	Kind   string `json:"kind,omitempty"`
}

type C02History struct {
	Steps []C02Step `json:"steps"`
	Final Config    `json:"final"`
}

func pollute(root string, kind string, n int) error {
	aad := filepath.Join(root, "apparmor.d")
	if st, err := os.Stat(aad); err != nil || !st.IsDir() {
		os.RemoveAll(aad)
		if err := os.MkdirAll(aad, 0o755); err != nil {
			return err
		}
	}
	switch kind {
	case "hidden-file":
		return os.WriteFile(filepath.Join(aad, ".stale.swp"), []byte("junk\n"), 0o644)
	case "hidden-dir":
		if err := os.MkdirAll(filepath.Join(aad, ".old"), 0o755); err != nil {
			return err
		}
		return os.WriteFile(filepath.Join(aad, ".old", "stale-profile"), []byte("profile stale-profile {\n}\n"), 0o644)
	case "junk-file":
		return os.WriteFile(filepath.Join(aad, fmt.Sprintf("zz-junk-%d", n)), []byte("junk\n"), 0o644)
	case "stale-profile":
		return os.WriteFile(filepath.Join(aad, "stale-profile"), []byte("abi <abi/4.0>,\nprofile stale-profile {\n}\n"), 0o644)
	case "junk-dir":
		d := filepath.Join(aad, "groups", "stale")
		if st, err := os.Lstat(filepath.Join(aad, "groups")); err == nil && !st.IsDir() {
			os.Remove(filepath.Join(aad, "groups"))
		}
		if err := os.MkdirAll(d, 0o755); err != nil {
			return err
		}
		return os.WriteFile(filepath.Join(d, "left-over"), []byte("x"), 0o644)
	case "dangling-symlink":
		os.MkdirAll(filepath.Join(aad, "disable"), 0o755)
		return os.Symlink("../nowhere", filepath.Join(aad, "disable", fmt.Sprintf("dangling-%d", n)))
	case "file-for-dir":
		p := filepath.Join(aad, "abstractions")
		os.RemoveAll(p)
		os.MkdirAll(aad, 0o755)
		return os.WriteFile(p, []byte("not a directory\n"), 0o644)
	case "systemd-junk":
		d := filepath.Join(root, "systemd", "system", "stale.service.d")
		if err := os.MkdirAll(d, 0o755); err != nil {
			return err
		}
		return os.WriteFile(filepath.Join(d, "apparmor.conf"), []byte("[Service]\nAppArmorProfile=stale\n"), 0o644)
	case "share-junk":
		os.MkdirAll(filepath.Join(root, "share"), 0o755)
		return os.WriteFile(filepath.Join(root, "share", "stale"), []byte("x"), 0o644)
	case "edited-profile":
		// an earlier output file modified in place
		files, _ := filepath.Glob(filepath.Join(aad, "a*"))
		if len(files) > 0 {
			return os.WriteFile(files[0], []byte("# edited\n"), 0o644)
		}
		return nil
	case "readonly-file":
		p := filepath.Join(aad, "zz-readonly")
		os.MkdirAll(aad, 0o755)
		if err := os.WriteFile(p, []byte("x"), 0o444); err != nil {
			return err
		}
		return nil
	}
	return fmt.Errorf("unknown pollution %s", kind)
}

var pollutions = []string{"junk-file", "stale-profile", "junk-dir", "dangling-symlink", "file-for-dir", "systemd-junk", "share-junk", "edited-profile", "readonly-file", "hidden-file", "hidden-dir"}

func c02RunHistory(h C02History) error {
	want, err := freshManifest(h.Final)
	if err != nil {
		return fmt.Errorf("INFRA: fresh build: %v", err)
	}
	dir, err := newScratchTree(repoRoot())
	if err != nil {
		return fmt.Errorf("INFRA: %v", err)
	}
	defer os.RemoveAll(dir)
	for i, s := range h.Steps {
		switch s.Op {
		case "build":
			if log, err := RunPrebuild(dir, s.Config, false); err != nil {
				return fmt.Errorf("step %d: prebuild %s fails on a used build directory: %v\n%s", i, s.Config, err, tail(log, 1500))
			}
		case "pollute":
			os.MkdirAll(filepath.Join(dir, ".build"), 0o755)
			if err := pollute(filepath.Join(dir, ".build"), s.Kind, i); err != nil {
				return fmt.Errorf("INFRA: pollute %s: %v", s.Kind, err)
			}
		}
	}
	if log, err := RunPrebuild(dir, h.Final, false); err != nil {
		return fmt.Errorf("final prebuild %s fails after the history %s: %v\n%s", h.Final, h.describe(), err, tail(log, 1500))
	}
	got, err := ManifestOf(filepath.Join(dir, ".build"), buildSubdirs...)
	if err != nil {
		return fmt.Errorf("INFRA: %v", err)
	}
	if d := want.Diff(got); len(d) > 0 {
		if len(d) > 12 {
			d = append(d[:12], fmt.Sprintf("... %d more", len(d)-12))
		}
		return fmt.Errorf("build of %s after the history [%s] differs from a fresh build (first = fresh, second = after history):\n  %s", h.Final, h.describe(), strings.Join(d, "\n  "))
	}
	return nil
}

func (h C02History) describe() string {
	var parts []string
	for _, s := range h.Steps {
		if s.Op == "build" {
			parts = append(parts, "build "+s.Config.String())
		} else {
			parts = append(parts, "pollute:"+s.Kind)
		}
	}
	return strings.Join(parts, "; ")
}

func genConfig(t *rapid.T, label string) Config {
	all := PrimaryConfigs()
	c := all[rapid.IntRange(0, len(all)-1).Draw(t, label)]
	if chance(t, label+"full", 2) {
		c.Full = true // weighted up: the full-system-policy path has the most moving parts
	}
	return c
}

func TestC02_Histories(t *testing.T) {
	if err := haveBins(); err != nil {
		t.Fatalf("INFRA: %v", err)
	}
	ev := NewEv(t, "C02", "histories", "histories over one scratch build directory with the real binary: 0-3 earlier steps, each a build of any primary configuration or a pollution of .build (junk files and directories, stale profile, dangling symlink, a file where a directory is expected, stale drop-ins, edited or read-only output files), then a final build; oracle: the manifest (path -> sha256 / symlink target) of .build/{apparmor.d,systemd,share} equals that of a fresh build of the final configuration. Non-trivial: >= 1 pollution or >= 1 earlier build of a different configuration; distinct by history")
	rapid.Check(t, func(t *rapid.T) {
		var h C02History
		n := rapid.IntRange(0, 3).Draw(t, "nsteps")
		for i := 0; i < n; i++ {
			if rapid.Bool().Draw(t, "isbuild") {
				h.Steps = append(h.Steps, C02Step{Op: "build", Config: genConfig(t, "cfg")})
			} else {
				h.Steps = append(h.Steps, C02Step{Op: "pollute", Kind: pick(t, "pollution", pollutions)})
			}
		}
		h.Final = genConfig(t, "final")
		key := ""
		for _, s := range h.Steps {
			if s.Op == "pollute" || s.Config != h.Final {
				key = h.describe() + " => " + h.Final.String()
			}
		}
		ev.Case(key, "final:"+fmt.Sprintf("full=%v", h.Final.Full))
		ev.Sample(map[string]any{"history": h.describe(), "final": h.Final.String()})
		if err := c02RunHistory(h); err != nil {
			if strings.HasPrefix(err.Error(), "INFRA") {
				t.Fatalf("%v", err)
			}
			t.Fatalf("%s", ev.Fail(h, "", "%v", err))
		}
	})
}

// TestC02_Repeat: k fresh builds of the same configuration agree (each process
// draws its own map iteration orders).
func TestC02_Repeat(t *testing.T) {
	if err := haveBins(); err != nil {
		t.Fatalf("INFRA: %v", err)
	}
	ev := NewEv(t, "C02", "repeat", "k fresh builds (k = 3 quick, 8 thorough) of the same configuration in separate processes, for --full configurations of every distribution (and normal ones in thorough); the last one in a build directory on another kind of filesystem (tmpfs) when there is one; oracle: identical manifests. Go randomises map iteration per process, so each repetition is an independent draw of the iteration orders; a two-way order dependence escapes k runs with probability 2^(1-k). Non-trivial: every configuration; distinct by configuration")
	k := 3
	var cfgs []Config
	for i, d := range allDists {
		av := primaryAV[i%3]
		cfgs = append(cfgs, Config{Dist: d, ABI: av.ABI, Version: av.Ver, Full: true, Mode: allModes[i%3]})
	}
	if isThorough() {
		k = 8
		for _, d := range allDists {
			for _, av := range primaryAV {
				cfgs = append(cfgs, Config{Dist: d, ABI: av.ABI, Version: av.Ver})
			}
		}
	} else {
		cfgs = cfgs[seedInt()%len(cfgs):]
		if len(cfgs) > 2 {
			cfgs = cfgs[:2]
		}
	}
	var mu sync.Mutex
	parallel(len(cfgs), 4, func(i int) {
		c := cfgs[i]
		var first Manifest
		for r := 0; r < k; r++ {
			// the last repetition sits on another kind of filesystem, where a directory is listed
			// in another raw order: the output must not depend on where the build directory is
			base := refScratch()
			if o := otherFilesystem(); r == k-1 && o != "" {
				base = o
			}
			b, err := BuildFromIn(base, repoRoot(), c, false)
			if err != nil {
				b.Clean()
				mu.Lock()
				t.Errorf("INFRA: %v", err)
				mu.Unlock()
				return
			}
			m, _ := ManifestOf(b.Root(), buildSubdirs...)
			b.Clean()
			mu.Lock()
			ev.Case(fmt.Sprintf("%s#%d", c, r), "cfg:"+c.String())
			if first == nil {
				first = m
			} else if d := first.Diff(m); len(d) > 0 {
				if len(d) > 10 {
					d = d[:10]
				}
				ev.Violate(map[string]any{"config": c, "run": r}, "", "two fresh builds of %s differ:\n  %s", c, strings.Join(d, "\n  "))
				t.Errorf("two fresh builds of %s differ: %v", c, d)
			}
			mu.Unlock()
		}
		mu.Lock()
		ev.Sample(map[string]any{"config": c.String(), "runs": k, "files": len(first)})
		mu.Unlock()
	})
}

// ---------------------------------------------------------------------------
// processing order independence (child processes)

type c02ChildReq struct {
	Root   string   `json:"root"` // a prepare-stage build directory (.build)
	Target Target   `json:"target"`
	Chain  []string `json:"chain"`
	Files  []string `json:"files"` // processed in this order
}

// TestC02_Child is the child side: it processes the listed files in order in
// this one process and prints a digest per file. Not a check by itself.
func TestC02_Child(t *testing.T) {
	raw := os.Getenv("VERIF_C02_CHILD")
	if raw == "" {
		t.Skip("child mode only")
	}
	var req c02ChildReq
	if err := json.Unmarshal([]byte(raw), &req); err != nil {
		t.Fatal(err)
	}
	prebuild.Root = paths.New(req.Root)
	prebuild.RootApparmord = prebuild.Root.Join("apparmor.d")
	setTarget(req.Target)
	builder.Builds = nil
	builder.Register(req.Chain...)
	for _, f := range req.Files {
		file := prebuild.RootApparmord.Join(f)
		text, err := file.ReadFileAsString()
		if err != nil {
			fmt.Printf("C02OUT %s ERR read\n", f)
			continue
		}
		out, err := func() (s string, err error) {
			defer func() {
				if p := recover(); p != nil {
					err = fmt.Errorf("panic: %v", p)
				}
			}()
			s, err = builder.Run(file, text)
			if err != nil {
				return
			}
			return directive.Run(file, s)
		}()
		if err != nil {
			fmt.Printf("C02OUT %s ERR %s\n", f, strings.ReplaceAll(err.Error(), "\n", " "))
			continue
		}
		h := sha256.Sum256([]byte(out))
		fmt.Printf("C02OUT %s %s\n", f, hex.EncodeToString(h[:10]))
	}
}

func c02Child(req c02ChildReq) (map[string]string, error) {
	raw, _ := json.Marshal(req)
	cmd := exec.Command(os.Args[0], "-test.run", "^TestC02_Child$", "-test.v")
	cmd.Env = append(os.Environ(), "VERIF_C02_CHILD="+string(raw), "VERIF_EV_OUT=")
	out, err := cmd.CombinedOutput()
	res := map[string]string{}
	for _, l := range strings.Split(string(out), "\n") {
		if strings.HasPrefix(l, "C02OUT ") {
			f := strings.SplitN(strings.TrimPrefix(l, "C02OUT "), " ", 2)
			res[f[0]] = f[1]
		}
	}
	if err != nil && len(res) == 0 {
		return nil, fmt.Errorf("child failed: %v\n%s", err, tail(string(out), 1500))
	}
	return res, nil
}

type C02Order struct {
	Cell  Config   `json:"cell"`
	Files []string `json:"files"`
	Alone string   `json:"alone"`
}

func directiveFiles(aad string) []string {
	var res []string
	for _, f := range listFiles(aad) {
		if strings.HasPrefix(f, "disable/") {
			continue
		}
		if strings.Contains(readFile(filepath.Join(aad, f)), "#aa:") {
			res = append(res, f)
		}
	}
	return res
}

func TestC02_Order(t *testing.T) {
	if err := haveBins(); err != nil {
		t.Fatalf("INFRA: %v", err)
	}
	ev := NewEv(t, "C02", "order", "per-profile independence: the prepare-stage tree of a real --full build is processed by fresh child processes (builder chain + directives, as cli.Build does per file); rapid draws a subset and an order of the directive-bearing files (stack / exec / dbus / only users) and one of them to be processed alone; oracle: the digest of each file's output is the same whatever was processed before it in the same process, and the same in two processes. Non-trivial: an order in which a stack or exec user is processed after another one; distinct by order")
	cell := Config{Dist: allDists[seedInt()%len(allDists)], ABI: 4, Version: "4.1", Full: true}
	b, err := BuildShipped(cell, true)
	defer b.Clean()
	if err != nil {
		t.Fatalf("INFRA: %v", err)
	}
	all := directiveFiles(b.Apparmord())
	var heavy []string // stack / exec users
	for _, f := range all {
		tx := readFile(filepath.Join(b.Apparmord(), f))
		if strings.Contains(tx, "#aa:stack") || strings.Contains(tx, "#aa:exec") {
			heavy = append(heavy, f)
		}
	}
	if len(all) < 20 || len(heavy) < 5 {
		t.Fatalf("INFRA: only %d directive-bearing files (%d stack/exec users) in the prepared tree", len(all), len(heavy))
	}
	chain := []string{"userspace", "hotfix", "fsp"}
	rapid.Check(t, func(t *rapid.T) {
		// a subset mixing stack/exec users with ordinary directive users
		n := rapid.IntRange(2, 10).Draw(t, "n")
		set := map[string]bool{}
		var files []string
		for i := 0; i < n; i++ {
			pool := all
			if rapid.Bool().Draw(t, "heavy") {
				pool = heavy
			}
			f := pool[rapid.IntRange(0, len(pool)-1).Draw(t, "file")]
			if !set[f] {
				set[f] = true
				files = append(files, f)
			}
		}
		alone := files[rapid.IntRange(0, len(files)-1).Draw(t, "alone")]
		c := C02Order{Cell: cell, Files: files, Alone: alone}
		nheavy := 0
		for _, f := range files {
			if containsStr(heavy, f) {
				nheavy++
			}
		}
		key := ""
		if nheavy >= 2 {
			key = strings.Join(files, ",")
		}
		ev.Case(key, fmt.Sprintf("heavy:%d", min(nheavy, 3)))
		ev.Sample(c)
		if err := c02OrderOracle(c, b.Root(), chain); err != nil {
			if strings.HasPrefix(err.Error(), "INFRA") {
				t.Fatalf("%v", err)
			}
			t.Fatalf("%s", ev.Fail(c, "", "%v", err))
		}
	})
}

func c02OrderOracle(c C02Order, root string, chain []string) error {
	tg := c.Cell.Target()
	fwd, err := c02Child(c02ChildReq{Root: root, Target: tg, Chain: chain, Files: c.Files})
	if err != nil {
		return fmt.Errorf("INFRA: %v", err)
	}
	rev := append([]string{}, c.Files...)
	sort.Sort(sort.Reverse(sort.StringSlice(rev)))
	bwd, err := c02Child(c02ChildReq{Root: root, Target: tg, Chain: chain, Files: rev})
	if err != nil {
		return fmt.Errorf("INFRA: %v", err)
	}
	one, err := c02Child(c02ChildReq{Root: root, Target: tg, Chain: chain, Files: []string{c.Alone}})
	if err != nil {
		return fmt.Errorf("INFRA: %v", err)
	}
	for _, f := range c.Files {
		if fwd[f] != bwd[f] {
			return fmt.Errorf("the output for %s depends on which profiles were processed before it in the same process\n  order %v -> %s\n  order %v -> %s", f, c.Files, fwd[f], rev, bwd[f])
		}
	}
	if one[c.Alone] != fwd[c.Alone] {
		return fmt.Errorf("the output for %s differs when it is processed alone (%s) and after %v (%s)", c.Alone, one[c.Alone], c.Files, fwd[c.Alone])
	}
	return nil
}

func TestC02_Replay(t *testing.T) {
	path := os.Getenv("VERIF_REPLAY")
	if path == "" {
		t.Skip("no VERIF_REPLAY")
	}
	rf, err := LoadReplay(path, nil)
	if err != nil {
		t.Fatal(err)
	}
	ev := NewEv(t, "C02", "replay", "replay of one saved case")
	ev.Case("replay")
	var oerr error
	switch rf.Sub {
	case "histories":
		var h C02History
		json.Unmarshal(rf.Case, &h)
		oerr = c02RunHistory(h)
	case "order":
		var c C02Order
		json.Unmarshal(rf.Case, &c)
		b, err := BuildShipped(c.Cell, true)
		defer b.Clean()
		if err != nil {
			t.Fatalf("INFRA: %v", err)
		}
		oerr = c02OrderOracle(c, b.Root(), []string{"userspace", "hotfix", "fsp"})
	case "twins":
		var c C02Twins
		json.Unmarshal(rf.Case, &c)
		oerr = c02TwinsOracle(c)
	case "dbus": // stage shared with C07
		var c C07Dbus
		json.Unmarshal(rf.Case, &c)
		oerr = c07DbusOracle(c, false)
	case "exec": // stage shared with C07
		var s C07Set
		json.Unmarshal(rf.Case, &s)
		oerr = c07ExecOracle(s)
	case "stack":
		var s C07Set
		json.Unmarshal(rf.Case, &s)
		oerr = c07StackOracle(s)
	case "lines":
		var s C07Set
		json.Unmarshal(rf.Case, &s)
		oerr = c02LinesOracle(s, 40) // the order, if it is drawn, is drawn per call
	case "repeat":
		var w struct {
			Config Config `json:"config"`
		}
		json.Unmarshal(rf.Case, &w)
		var first Manifest
		for r := 0; r < 6 && oerr == nil; r++ {
			b, err := BuildShipped(w.Config, false)
			if err != nil {
				b.Clean()
				t.Fatalf("INFRA: %v", err)
			}
			m, _ := ManifestOf(b.Root(), buildSubdirs...)
			b.Clean()
			if first == nil {
				first = m
			} else if d := first.Diff(m); len(d) > 0 {
				oerr = fmt.Errorf("two fresh builds of %s differ: %v", w.Config, d)
			}
		}
	}
	if oerr != nil {
		ev.Violate(json.RawMessage(rf.Case), "", "%v", oerr)
		t.Fatalf("%v", oerr)
	}
}
