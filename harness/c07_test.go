package harness

// C07 — generating directives are fully consumed and expand to what they document.

import (
	"encoding/json"
	"fmt"
	"os"
	"path/filepath"
	"regexp"
	"sort"
	"strings"
	"sync"
	"testing"

	"github.com/roddhjav/apparmor.d/pkg/aa"
	"github.com/roddhjav/apparmor.d/pkg/paths"
	"github.com/roddhjav/apparmor.d/pkg/prebuild"
	"pgregory.net/rapid"
)

// ---------------------------------------------------------------------------
// (a) no directive survives a real build

func TestC07_Leftovers(t *testing.T) {
	if err := haveBins(); err != nil {
		t.Fatalf("INFRA: %v", err)
	}
	ev := NewEv(t, "C07", "leftovers", "real builds of the shipped tree (all 30 distribution x ABI/version x full cells in thorough, a seeded covering sample of 4 incl. --full in quick): no '#aa:' marker may remain in any output file. Non-trivial: an output file whose source holds a directive; distinct by cell + file")
	ev.Exhaustive = isThorough()
	cells := c05Cells()
	hasFull := false
	for _, c := range cells {
		hasFull = hasFull || c.Full
	}
	if !hasFull {
		cells[0].Full = true
	}
	srcIdx := sourceTextIndex()
	var mu sync.Mutex
	parallel(len(cells), 4, func(i int) {
		c := cells[i]
		b, err := BuildShipped(c, false)
		defer b.Clean()
		if err != nil {
			mu.Lock()
			t.Errorf("INFRA: %v", err)
			mu.Unlock()
			return
		}
		n := 0
		for _, f := range listFiles(b.Apparmord()) {
			if strings.HasPrefix(f, "disable/") {
				continue
			}
			text := readFile(filepath.Join(b.Apparmord(), f))
			key := ""
			if strings.Contains(srcIdx[strings.TrimSuffix(f, ".apparmor.d")], "#aa:") {
				key = c.String() + "|" + f
				n++
			}
			mu.Lock()
			ev.Case(key)
			for _, l := range strings.Split(text, "\n") {
				if strings.Contains(l, "#aa:") {
					ev.Violate(map[string]any{"cell": c, "file": f}, "", "%s: %s still holds the directive %q", c, f, strings.TrimSpace(l))
					t.Errorf("%s: %s still holds %q", c, f, strings.TrimSpace(l))
				}
			}
			mu.Unlock()
		}
		mu.Lock()
		ev.Sample(map[string]any{"cell": c.String(), "files_with_directives_in_source": n})
		mu.Unlock()
	})
}

// ---------------------------------------------------------------------------
// (b) dbus

type C07Dbus struct {
	Action string            `json:"action"`
	Args   map[string]string `json:"args"`
	Order  []string          `json:"order"`
	Indent string            `json:"indent"`
}

func (c C07Dbus) directive() string {
	parts := []string{c.Action}
	for _, k := range c.Order {
		parts = append(parts, k+"="+c.Args[k])
	}
	return c.Indent + "#aa:dbus " + strings.Join(parts, " ")
}

func (c C07Dbus) Text() string {
	return "abi <abi/4.0>,\n\ninclude <tunables/global>\n\n@{exec_path} = @{bin}/foo\nprofile foo @{exec_path} {\n  include <abstractions/base>\n\n" +
		"  /etc/before r,\n" + c.directive() + "\n  /etc/after r,\n\n  include if exists <local/foo>\n}\n"
}

type dbusRule struct {
	Access  []string
	KV      map[string]string
	Peer    map[string]string
	Include string
	Raw     string
}

var reKV = regexp.MustCompile(`^([a-z_]+)=(.*)$`)

// readDbusRules is the independent tokenizer of printed dbus text.
func readDbusRules(lines []string) ([]dbusRule, []string) {
	var rules []dbusRule
	var others []string
	var cur []string
	flush := func() {
		raw := strings.Join(cur, " ")
		cur = nil
		raw = strings.TrimSuffix(strings.TrimSpace(raw), ",")
		toks := splitOutsideParens(raw)
		if len(toks) == 0 || toks[0] != "dbus" {
			others = append(others, raw)
			return
		}
		r := dbusRule{KV: map[string]string{}, Peer: map[string]string{}, Raw: raw}
		for _, tk := range toks[1:] {
			if m := reKV.FindStringSubmatch(tk); m != nil {
				if m[1] == "peer" {
					inner := strings.TrimSuffix(strings.TrimPrefix(m[2], "("), ")")
					for _, p := range splitTopLevel(inner) {
						p = strings.TrimSpace(p)
						if pm := reKV.FindStringSubmatch(p); pm != nil {
							r.Peer[pm[1]] = strings.Trim(pm[2], `"`)
						}
					}
				} else {
					r.KV[m[1]] = strings.Trim(m[2], `"`)
				}
				continue
			}
			tk = strings.Trim(tk, "()")
			for _, a := range strings.FieldsFunc(tk, func(r rune) bool { return r == ' ' || r == ',' }) {
				r.Access = append(r.Access, a)
			}
		}
		rules = append(rules, r)
	}
	for _, l := range lines {
		t := strings.TrimSpace(l)
		if t == "" || strings.HasPrefix(t, "#") {
			continue
		}
		if strings.HasPrefix(t, "include ") {
			rules = append(rules, dbusRule{Include: t, Raw: t})
			continue
		}
		cur = append(cur, t)
		if strings.HasSuffix(t, ",") {
			flush()
		}
	}
	if len(cur) > 0 {
		flush()
	}
	return rules, others
}

func splitOutsideParens(s string) []string {
	var res []string
	depth, quoted := 0, false
	start := -1
	for i, r := range s {
		switch {
		case r == '"':
			quoted = !quoted
		case r == '(' && !quoted:
			depth++
		case r == ')' && !quoted:
			depth--
		}
		if (r == ' ' || r == '\t') && depth == 0 && !quoted {
			if start >= 0 {
				res = append(res, s[start:i])
				start = -1
			}
			continue
		}
		if start < 0 {
			start = i
		}
	}
	if start >= 0 {
		res = append(res, s[start:])
	}
	return res
}

func splitTopLevel(s string) []string {
	var res []string
	depth, quoted, start := 0, false, 0
	for i, r := range s {
		switch {
		case r == '"':
			quoted = !quoted
		case (r == '{' || r == '(') && !quoted:
			depth++
		case (r == '}' || r == ')') && !quoted:
			depth--
		case (r == ',' || r == ' ') && depth == 0 && !quoted:
			if i > start {
				res = append(res, s[start:i])
			}
			start = i + 1
		}
	}
	if start < len(s) {
		res = append(res, s[start:])
	}
	return res
}

var c07mu sync.Mutex

func runDirectives(file, text string) (string, error) {
	aa.IndentationLevel = 0
	return safeDirectiveRun(file, text)
}

func c07DbusOracle(c C07Dbus, useRef bool) error {
	c07mu.Lock()
	setTarget(Target{Dist: "arch", ABI: 4, Version: 4.1})
	text := c.Text()
	out, err := runDirectives("/verif-nonexistent/apparmor.d/foo", text)
	// the same directive expands to the same text on every call (the arguments are kept in a map)
	for rep := 0; rep < 5 && err == nil; rep++ {
		again, aerr := runDirectives("/verif-nonexistent/apparmor.d/foo", text)
		if aerr == nil && again != out {
			c07mu.Unlock()
			return fmt.Errorf("the same dbus directive expands differently on a later call in the same process\n--- first\n%s--- later\n%s", out, again)
		}
	}
	c07mu.Unlock()
	if err != nil {
		return fmt.Errorf("directive.Run fails: %v\n%s", err, text)
	}
	if strings.Contains(out, "#aa:") {
		return fmt.Errorf("the directive is still in the output\n%s", out)
	}
	// the host's own lines stay as they were, in order; the generated lines stand where the directive was
	inL, outL := strings.Split(text, "\n"), strings.Split(out, "\n")
	di := -1
	for i, l := range inL {
		if strings.Contains(l, "#aa:dbus") {
			di = i
		}
	}
	tailN := len(inL) - di - 1
	if len(outL) < len(inL)-1 || strings.Join(outL[:di], "\n") != strings.Join(inL[:di], "\n") ||
		strings.Join(outL[len(outL)-tailN:], "\n") != strings.Join(inL[di+1:], "\n") {
		return fmt.Errorf("the host profile's own lines changed\n--- in\n%s--- out\n%s", text, out)
	}
	gen := outL[di : len(outL)-tailN]
	for _, l := range gen {
		if strings.TrimSpace(l) != "" && !strings.HasPrefix(l, c.Indent) {
			return fmt.Errorf("a generated line is not indented like the directive (%q): %q", c.Indent, l)
		}
	}
	rules, others := readDbusRules(gen)
	if len(others) > 0 {
		return fmt.Errorf("the directive generated something that is not a dbus rule: %q", others)
	}
	name, bus := c.Args["name"], c.Args["bus"]
	path := c.Args["path"]
	if path == "" {
		path = "/" + strings.ReplaceAll(name, ".", "/") + "{,/**}"
	}
	ifaces := []string{name + "{,.*}"}
	if v, ok := c.Args["interface"]; ok {
		ifaces = []string{v}
	}
	if v, ok := c.Args["interface+"]; ok {
		ifaces = append(ifaces, v)
	}
	label := strings.Trim(c.Args["label"], `"`)
	binds := 0
	dir := map[string]map[string]bool{} // interface -> directions seen
	for _, r := range rules {
		if r.Include != "" {
			if c.Action != "own" || r.Include != "include <abstractions/bus/own-"+bus+">" {
				return fmt.Errorf("unexpected include generated: %q", r.Include)
			}
			continue
		}
		if r.KV["bus"] != bus {
			return fmt.Errorf("a generated rule is not on the named bus %q: %q", bus, r.Raw)
		}
		if containsStr(r.Access, "bind") {
			binds++
			if c.Action != "own" {
				return fmt.Errorf("%s must not bind a name: %q", c.Action, r.Raw)
			}
			if r.KV["name"] != name+"{,.*}" {
				return fmt.Errorf("bind rule has name %q, want %q: %q", r.KV["name"], name+"{,.*}", r.Raw)
			}
			continue
		}
		if len(r.Access) == 0 {
			return fmt.Errorf("a generated rule has no access: %q", r.Raw)
		}
		for _, a := range r.Access {
			if a != "send" && a != "receive" {
				return fmt.Errorf("unexpected access %q: %q", a, r.Raw)
			}
		}
		if r.KV["path"] != path {
			return fmt.Errorf("a generated rule is on path %q, want %q: %q", r.KV["path"], path, r.Raw)
		}
		if r.KV["interface"] == "" {
			return fmt.Errorf("a generated rule has no interface: %q", r.Raw)
		}
		if dir[r.KV["interface"]] == nil {
			dir[r.KV["interface"]] = map[string]bool{}
		}
		for _, a := range r.Access {
			dir[r.KV["interface"]][a] = true
		}
		switch c.Action {
		case "own":
			if r.Peer["label"] != "" {
				return fmt.Errorf("own must not restrict the peer label: %q", r.Raw)
			}
		default:
			if r.Peer["label"] != label {
				return fmt.Errorf("%s rule without peer=(label=%s): %q", c.Action, label, r.Raw)
			}
			if !strings.Contains(r.Peer["name"], name) {
				return fmt.Errorf("%s rule whose peer name %q does not hold the name %q: %q", c.Action, r.Peer["name"], name, r.Raw)
			}
		}
	}
	switch c.Action {
	case "own":
		if binds != 1 {
			return fmt.Errorf("own generated %d bind rules, want exactly 1\n%s", binds, strings.Join(gen, "\n"))
		}
		for _, i := range ifaces {
			if !dir[i]["send"] || !dir[i]["receive"] {
				return fmt.Errorf("own: interface %q lacks send or receive (%v)\n%s", i, dir[i], strings.Join(gen, "\n"))
			}
		}
	case "talk":
		for _, i := range ifaces {
			if !dir[i]["send"] || !dir[i]["receive"] {
				return fmt.Errorf("talk: interface %q lacks send or receive (%v)\n%s", i, dir[i], strings.Join(gen, "\n"))
			}
		}
	}
	if useRef {
		stub := "abi <abi/3.0>,\ninclude <tunables/global>\nprofile s {\n" + strings.Join(gen, "\n") + "\n}\n"
		ov, err := shippedTunablesOverlay()
		if err != nil {
			return fmt.Errorf("INFRA: %v", err)
		}
		// the own-<bus> abstraction belongs to the tree, not to upstream: lay it over
		ref := Ref{Base: ov, Features: true}
		if ok, msg := ref.Accepts(stub); !ok {
			if strings.Contains(msg, "timed out") {
				return errInconclusive
			}
			return fmt.Errorf("the generated rules are rejected by the reference parser: %s\n%s", msg, stub)
		}
	}
	return nil
}

func genC07Dbus(t *rapid.T) C07Dbus {
	c := C07Dbus{Args: map[string]string{}}
	c.Action = pick(t, "action", []string{"own", "talk", "common"})
	c.Indent = pick(t, "indent", []string{"  ", "    "})
	c.Args["bus"] = pick(t, "bus", []string{"system", "session", "accessibility"})
	c.Args["name"] = pick(t, "name", []string{"org.freedesktop.NetworkManager", "org.gnome.Shell", "org.a", "com.example.Foo_Bar.Baz1", "org.mpris.MediaPlayer2.x", "org.gnome.Evolution-alarm-notify", "org.gnome.user-share.webdav", "org.a11y.{B,b}us"})
	if c.Action != "own" || chance(t, "ownlabel", 4) {
		// own takes no label (shipped: upower gives one all the same): it must not end up in a rule
		c.Args["label"] = pick(t, "label", []string{"systemd-logind", "gnome-shell", "@{p_systemd}", "foo//bar", `"{a,b}"`})
	}
	if chance(t, "path", 2) {
		c.Args["path"] = pick(t, "pathv", []string{"/org/freedesktop/NetworkManager", "/org/gnome/Shell{,/**}", "/", "/org/a/**"})
	}
	if c.Action != "common" && chance(t, "iface", 2) {
		c.Args["interface"] = pick(t, "ifacev", []string{"org.freedesktop.NetworkManager", "org.gnome.Shell.*", "org.a{,.*}"})
		if chance(t, "iface+", 2) {
			c.Args["interface+"] = pick(t, "iface+v", []string{"org.freedesktop.DBus.Peer", "org.b.C"})
		}
	}
	var keys []string
	for k := range c.Args {
		keys = append(keys, k)
	}
	sort.Strings(keys)
	c.Order = rapid.Permutation(keys).Draw(t, "order")
	return c
}

func TestC07_Dbus(t *testing.T) {
	ev := NewEv(t, "C07", "dbus", "generated dbus directives (own / talk / common x 3 buses x names, optional path, interface, interface+, label, arguments in any order, indentation 2 or 4) through directive.Run in-process; oracle: an independent tokenizer of the printed rules and the predicate of docs/development/dbus.md + the statement (named bus only; own: exactly one bind of name{,.*}, send and receive on the path for every requested interface, no peer label; talk/common: no bind, every rule peer-labelled and naming the service, talk in both directions per interface), host lines untouched, generated lines indented like the directive; every 5th case is also shown to the reference parser. Non-trivial: >= 1 optional argument; distinct by directive text")
	n := 0
	rapid.Check(t, func(t *rapid.T) {
		c := genC07Dbus(t)
		n++
		key := ""
		if len(c.Args) > 3 || (c.Action == "own" && len(c.Args) > 2) {
			key = c.directive()
		}
		err := c07DbusOracle(c, n%5 == 0)
		ev.Case(key, "action:"+c.Action)
		ev.Sample(map[string]any{"directive": strings.TrimSpace(c.directive())})
		if err == errInconclusive {
			ev.Inconclusive()
			return
		}
		if err != nil {
			if strings.HasPrefix(err.Error(), "INFRA") {
				t.Fatalf("%v", err)
			}
			if Explore(c.Action+": "+firstLine(err), err) {
				return
			}
			t.Fatalf("%s", ev.Fail(c, "", "%v", err))
		}
	})
	ExploreReport(t)
}

// ---------------------------------------------------------------------------
// (c) exec and (d) stack on generated profile sets

type C07Profile struct {
	Name  string   `json:"name"`
	Exec  []string `json:"exec"`            // values of @{exec_path} (definition)
	More  []string `json:"more"`            // values appended with +=
	Body  []string `json:"body"`            // rule lines (2-space indented)
	Flags string   `json:"flags"`           // header flags
	Entry string   `json:"entry,omitempty"` // access of the entry point rule ("" = mr)
	NoAtt bool     `json:"noatt,omitempty"` // the header does not attach @{exec_path} (child profiles, xtables ...)
	Local []string `json:"local,omitempty"` // values of a helper variable @{name} of this file, defined before @{exec_path}
	Tab   bool     `json:"tab,omitempty"`   // values separated (and aligned) with tabs
}

func (p C07Profile) sep() string {
	if p.Tab {
		return "\t"
	}
	return " "
}

func (p C07Profile) entryLine() string {
	e := p.Entry
	if e == "" {
		e = "mr"
	}
	return "  @{exec_path} " + e + ","
}

func (p C07Profile) Text() string {
	var b strings.Builder
	b.WriteString("# apparmor.d - test profile\n\nabi <abi/4.0>,\n\ninclude <tunables/global>\n\n")
	if len(p.Local) > 0 {
		fmt.Fprintf(&b, "@{name} =%s%s\n", p.sep(), strings.Join(p.Local, p.sep()))
	}
	fmt.Fprintf(&b, "@{exec_path} =%s%s\n", p.sep(), strings.Join(p.Exec, p.sep()))
	for _, m := range p.More {
		fmt.Fprintf(&b, "@{exec_path} +=%s%s\n", p.sep(), m) // one line per appended value
	}
	fl := ""
	if p.Flags != "" {
		fl = " flags=(" + p.Flags + ")"
	}
	att := " @{exec_path}"
	if p.NoAtt {
		att = ""
	}
	fmt.Fprintf(&b, "profile %s%s%s {\n  include <abstractions/base>\n\n%s\n", p.Name, att, fl, p.entryLine())
	for _, l := range p.Body {
		b.WriteString(l + "\n")
	}
	fmt.Fprintf(&b, "\n  include if exists <local/%s>\n}\n", p.Name)
	return b.String()
}

type C07Set struct {
	Profiles []C07Profile `json:"profiles"`
	Host     []string     `json:"host"` // host body lines; one of them is the directive
	Kind     string       `json:"kind"` // exec | stack
	Args     []string     `json:"args"`
	Prelude  string       `json:"prelude,omitempty"` // another directive of the same kind processed first in the same process
}

func (s C07Set) hostText() string {
	return C07Profile{Name: "host", Exec: []string{"@{bin}/host"}, Body: s.Host}.Text()
}

var c07ExecValues = []string{"@{bin}/foo", "@{bin}/Foo", "@{lib}/foo/bar", "@{lib}/Foo/bar", "@{lib}/@{multiarch}/{,libexec/}baz", "/opt/x/{a,b}", "@{bin}/q*", "@{lib}/{,kf6/}w", "/usr/share/z/run"}
var c07BodyLines = []string{
	"  include <abstractions/consoles>", "  capability sys_admin,", "  network inet stream,", "  unix,", "  unix (send receive) type=stream,",
	"  signal (receive) set=(term) peer=foo,", "  @{bin}/ls rix,", "  @{bin}/man rPx,", "  @{lib}/helper rPx -> child-open,", "  owner @{HOME}/.cache/x rw,",
	"  /etc/foo r,", "  /etc/mux, r,", "  dbus send bus=session path=/org/x\n       interface=org.x\n       member=Fox,", "  # a comment", "",
	"  userns,", "  mqueue r type=posix /q,", "  deny @{bin}/su x,", "  audit /usr/bin/tool rCx -> tool,", "  @{sys}/devices/** r,", "  ptrace (read) peer=unconfined,",
}

func genC07Set(t *rapid.T, kind string) C07Set {
	var s C07Set
	s.Kind = kind
	n := rapid.IntRange(1, 3).Draw(t, "ntargets")
	names := []string{"alpha", "beta", "gamma", "delta"}
	for i := 0; i < n; i++ {
		p := C07Profile{Name: names[i]}
		p.Exec = subsetOrdered(t, "execvals", c07ExecValues, 1, 3)
		if chance(t, "more", 3) {
			p.More = subsetOrdered(t, "morev", []string{"@{bin}/extra", "/opt/more/{c,d}", "@{lib}/extra/e"}, 1, 3)
		}
		if kind == "exec" && chance(t, "localvar", 3) {
			// a helper variable of the target's own file, referenced inside a path component
			p.Local = subsetOrdered(t, "localvals", []string{"acme", "acme-ng", "{tool,Tool}"}, 1, 2)
			p.Exec = append(p.Exec, pick(t, "localuse", []string{"/opt/lib-@{name}/bin/launcher", "@{lib}/@{name}/run", "/opt/@{name}/@{name}-bin", "@{bin}/x@{name}"}))
		}
		p.Tab = chance(t, "tabs", 5)
		nb := rapid.IntRange(1, 8).Draw(t, "nbody")
		for j := 0; j < nb; j++ {
			p.Body = append(p.Body, pick(t, "bodyline", c07BodyLines))
		}
		p.Flags = maybe(t, "flags", []string{"complain", "attach_disconnected"})
		p.Entry = pick(t, "entry", []string{"", "", "mrix", "r", "rix", "mrix"})
		p.NoAtt = chance(t, "noatt", 5)
		s.Profiles = append(s.Profiles, p)
		s.Args = append(s.Args, p.Name)
	}
	s.Args = rapid.Permutation(s.Args).Draw(t, "argorder")
	var directive string
	if kind == "exec" {
		tr := pick(t, "transition", []string{"", "P", "U", "p", "u", "PU", "pu"})
		if tr != "" {
			directive = "  #aa:exec " + tr + " " + strings.Join(s.Args, " ")
			s.Args = append([]string{tr}, s.Args...)
		} else {
			directive = "  #aa:exec " + strings.Join(s.Args, " ")
		}
	} else {
		if rapid.Bool().Draw(t, "X") {
			directive = "  #aa:stack X " + strings.Join(s.Args, " ")
			s.Args = append([]string{"X"}, s.Args...)
		} else {
			directive = "  #aa:stack " + strings.Join(s.Args, " ")
		}
	}
	if chance(t, "prelude", 2) {
		// another host processed earlier in the same process, naming (some of) the same
		// profiles with the other spelling (X / no X, another transition)
		names := append([]string{}, s.Args...)
		if kind == "exec" {
			if containsStr([]string{"P", "U", "p", "u", "PU", "pu"}, names[0]) {
				names = names[1:]
			}
			s.Prelude = "  #aa:exec " + pick(t, "pretransition", []string{"U", "p", "PU"}) + " " + strings.Join(names, " ")
		} else {
			if names[0] == "X" {
				s.Prelude = "  #aa:stack " + strings.Join(names[1:], " ")
			} else {
				s.Prelude = "  #aa:stack X " + strings.Join(names, " ")
			}
		}
	}
	nh := rapid.IntRange(1, 5).Draw(t, "nhost")
	at := rapid.IntRange(0, nh).Draw(t, "dirat")
	for j := 0; j <= nh; j++ {
		if j == at {
			s.Host = append(s.Host, directive)
		} else {
			s.Host = append(s.Host, pick(t, "hostline", []string{"  /etc/host.conf r,", "  capability net_admin,", "  @{bin}/sh rix,", "  # host comment", "", "  network netlink raw,",
				"  profile sub {\n    include <abstractions/base>\n\n    /etc/sub.conf r,\n\n    include if exists <local/host_sub>\n  }"}))
		}
	}
	return s
}

// withProfileSet writes the set into a scratch build directory, points the
// library's RootApparmord at it and runs fn.
func withProfileSet(s C07Set, fn func(root string) error) error {
	c07mu.Lock()
	defer c07mu.Unlock()
	dir, err := os.MkdirTemp(refScratch(), "c07-")
	if err != nil {
		return fmt.Errorf("INFRA: %v", err)
	}
	defer os.RemoveAll(dir)
	for _, p := range s.Profiles {
		if err := os.WriteFile(filepath.Join(dir, p.Name), []byte(p.Text()), 0o644); err != nil {
			return fmt.Errorf("INFRA: %v", err)
		}
	}
	oldRoot := prebuild.RootApparmord
	prebuild.RootApparmord = paths.New(dir)
	defer func() { prebuild.RootApparmord = oldRoot }()
	setTarget(Target{Dist: "arch", ABI: 4, Version: 4.1})
	return fn(dir)
}

func generatedLines(in, out string, marker string) (before, gen, after []string, err error) {
	inL, outL := strings.Split(in, "\n"), strings.Split(out, "\n")
	di := -1
	for i, l := range inL {
		if strings.Contains(l, marker) {
			di = i
		}
	}
	tailN := len(inL) - di - 1
	if di < 0 || len(outL) < len(inL)-1 {
		return nil, nil, nil, fmt.Errorf("cannot locate the directive's output")
	}
	return outL[:di], outL[di : len(outL)-tailN], outL[len(outL)-tailN:], nil
}

func c07ExecOracle(s C07Set) error {
	return withProfileSet(s, func(root string) error {
		host := s.hostText()
		if s.Prelude != "" {
			// what was processed earlier in the process must not matter
			pre := C07Profile{Name: "earlier", Exec: []string{"@{bin}/earlier"}, Body: []string{s.Prelude}}.Text()
			if _, err := runDirectives(filepath.Join(root, "earlier"), pre); err != nil {
				return fmt.Errorf("directive.Run fails on the earlier host: %v\n%s", err, pre)
			}
		}
		var first string
		for rep := 0; rep < 4; rep++ {
			out, err := runDirectives(filepath.Join(root, "host"), host)
			if err != nil {
				return fmt.Errorf("directive.Run fails: %v\n%s", err, host)
			}
			if rep == 0 {
				first = out
			} else if out != first {
				return fmt.Errorf("the same exec directive expands differently on a second call in the same process\n--- first\n%s--- later\n%s", first, out)
			}
		}
		if strings.Contains(first, "#aa:") {
			return fmt.Errorf("the directive is still in the output\n%s", first)
		}
		before, gen, after, err := generatedLines(host, first, "#aa:exec")
		if err != nil {
			return fmt.Errorf("%v\n%s", err, first)
		}
		inL := strings.Split(host, "\n")
		if strings.Join(append(append([]string{}, before...), after...), "\n") != strings.Join(append(append([]string{}, inL[:len(before)]...), inL[len(before)+1:]...), "\n") {
			return fmt.Errorf("the host profile's own lines changed\n--- in\n%s--- out\n%s", host, first)
		}
		transition := "Px"
		targets := s.Args
		if containsStr([]string{"P", "U", "p", "u", "PU", "pu"}, s.Args[0]) {
			transition = s.Args[0] + "x"
			targets = s.Args[1:]
		}
		for _, l := range gen {
			toks := strings.Fields(l)
			if len(toks) != 2 || toks[1] != transition+"," {
				return fmt.Errorf("generated line %q is not '<path> %s,'", l, transition)
			}
		}
		// language equality, judged by the reference parser: the generated rules
		// against one rule per target on that target's own @{exec_path}
		ov, err := shippedTunablesOverlay()
		if err != nil {
			return fmt.Errorf("INFRA: %v", err)
		}
		ref := Ref{Base: ov}
		var pre, body strings.Builder
		pre.WriteString("abi <abi/3.0>,\ninclude <tunables/global>\n")
		for i, name := range targets {
			var p C07Profile
			for _, q := range s.Profiles {
				if q.Name == name {
					p = q
				}
			}
			vals := strings.Join(append(append([]string{}, p.Exec...), p.More...), " ")
			if len(p.Local) > 0 {
				// the target's own helper variable, under a name of its own
				fmt.Fprintf(&pre, "@{verif_name_%d} = %s\n", i, strings.Join(p.Local, " "))
				vals = strings.ReplaceAll(vals, "@{name}", fmt.Sprintf("@{verif_name_%d}", i))
			}
			fmt.Fprintf(&pre, "@{verif_exec_%d} = %s\n", i, vals)
			fmt.Fprintf(&body, "  @{verif_exec_%d} %s,\n", i, transition)
		}
		want, err := ref.CompileOne(pre.String() + "profile s {\n" + body.String() + "}\n")
		if err == ErrRefTimeout {
			return errInconclusive
		}
		if err != nil {
			return fmt.Errorf("HARNESS: reference rejects the expected rules: %v", err)
		}
		got, err := ref.CompileOne("abi <abi/3.0>,\ninclude <tunables/global>\nprofile s {\n" + strings.Join(gen, "\n") + "\n}\n")
		if err == ErrRefTimeout {
			return errInconclusive
		}
		if err != nil {
			return fmt.Errorf("the generated exec rules are rejected by the reference parser: %v\n%s", err, strings.Join(gen, "\n"))
		}
		if w, ok := DistinguishPaths(want.File(), got.File(), viewRaw); !ok {
			wa, _ := want.File().Perms(w)
			ga, _ := got.File().Perms(w)
			return fmt.Errorf("the generated exec rules do not cover the same executables with the requested transition: path %q has permissions %#x by @{exec_path} of the named profiles and %#x by the generated rules\n--- directive args %v\n--- generated\n%s", w, wa, ga, s.Args, strings.Join(gen, "\n"))
		}
		return nil
	})
}

var reExecFileRule = regexp.MustCompile(`^(?:(?:audit|deny|allow|owner)\s+)*(?:"[^"]*"|[/@]\S*)\s+[a-zA-Z]*x(?:\s+->\s+\S+)?,`)

// modelStackBody: what a stacked profile contributes (written from the statement
// and docs/development/directives.md): its rules minus the base include, the
// entry point and - unless X - the file rules with an exec transition; blank
// lines dropped.
func modelStackBody(p C07Profile, keepX bool) []string {
	var res []string
	lines := []string{"  include <abstractions/base>", "", p.entryLine()}
	lines = append(lines, p.Body...)
	lines = append(lines, "", "  include if exists <local/"+p.Name+">") // a rule of the stacked profile like any other
	for _, raw := range lines {
		for _, l := range strings.Split(raw, "\n") { // multi-line dbus rules
			t := strings.TrimSpace(l)
			if t == "" || t == "include <abstractions/base>" || strings.Contains(l, "@{exec_path}") {
				continue
			}
			if !keepX && reExecFileRule.MatchString(t) {
				continue
			}
			res = append(res, l)
		}
	}
	return res
}

func c07StackOracle(s C07Set) error {
	return withProfileSet(s, func(root string) error {
		host := s.hostText()
		if s.Prelude != "" {
			// what was processed earlier in the process must not matter
			pre := C07Profile{Name: "earlier", Exec: []string{"@{bin}/earlier"}, Body: []string{s.Prelude}}.Text()
			if _, err := runDirectives(filepath.Join(root, "earlier"), pre); err != nil {
				return fmt.Errorf("directive.Run fails on the earlier host: %v\n%s", err, pre)
			}
		}
		var first string
		for rep := 0; rep < 4; rep++ {
			out, err := runDirectives(filepath.Join(root, "host"), host)
			if err != nil {
				return fmt.Errorf("directive.Run fails: %v\n%s", err, host)
			}
			if rep == 0 {
				first = out
			} else if out != first {
				return fmt.Errorf("the same stack directive expands differently on a later call in the same process\n--- first\n%s--- later\n%s", first, out)
			}
		}
		if strings.Contains(first, "#aa:") {
			return fmt.Errorf("a directive is still in the output\n%s", first)
		}
		keepX := s.Args[0] == "X"
		names := s.Args
		if keepX {
			names = names[1:]
		}
		// expected output: the host lines without the directive line, the stacked
		// blocks inserted before the trailing local include, in argument order
		var want []string
		for _, l := range strings.Split(host, "\n") {
			if strings.Contains(l, "#aa:stack") {
				continue
			}
			if strings.TrimSpace(l) == "include if exists <local/host>" {
				for _, n := range names {
					var p C07Profile
					for _, q := range s.Profiles {
						if q.Name == n {
							p = q
						}
					}
					want = append(want, "  # Stacked profile: "+n)
					want = append(want, modelStackBody(p, keepX)...)
				}
			}
			want = append(want, l)
		}
		got := nonBlankTrimmed(first)
		exp := nonBlankTrimmed(strings.Join(want, "\n"))
		if strings.Join(got, "\n") != strings.Join(exp, "\n") {
			i := 0
			for i < len(got) && i < len(exp) && got[i] == exp[i] {
				i++
			}
			g, e := "<end>", "<end>"
			if i < len(got) {
				g = got[i]
			}
			if i < len(exp) {
				e = exp[i]
			}
			return fmt.Errorf("stack %v: at non-blank line %d got %q, want %q\n--- host\n%s--- output\n%s", s.Args, i+1, g, e, host, first)
		}
		return nil
	})
}

func nonBlankTrimmed(text string) []string {
	var res []string
	for _, l := range strings.Split(text, "\n") {
		if strings.TrimSpace(l) != "" {
			res = append(res, strings.TrimRight(l, " "))
		}
	}
	return res
}

func TestC07_Exec(t *testing.T) {
	if err := haveBins(); err != nil {
		t.Fatalf("INFRA: %v", err)
	}
	ev := NewEv(t, "C07", "exec", "generated profile sets: 1-3 target profiles (1-3 @{exec_path} values with shipped tunables and alternations, optional '+=') written into a scratch build directory, a host with 1-5 own lines and '#aa:exec [P|U|p|u|PU|pu] targets...' in any argument order; oracle: every generated line is '<path> <transition>x,', host lines untouched, 4 calls in one process give identical text (map order), and the generated rules compile (reference parser, shipped tunables) to the same file automaton as one rule per target on that target's own @{exec_path} - no executable lost or added, requested transition. This stage also decides the exec half of C06. Non-trivial: >= 2 targets; distinct by directive + targets")
	rapid.Check(t, func(t *rapid.T) {
		s := genC07Set(t, "exec")
		key := ""
		if len(s.Profiles) >= 2 {
			key = fmt.Sprint(s.Args, s.Profiles)
		}
		err := c07ExecOracle(s)
		ev.Case(key, fmt.Sprintf("targets:%d", len(s.Profiles)))
		ev.Sample(map[string]any{"args": s.Args, "targets": len(s.Profiles)})
		if err == errInconclusive {
			ev.Inconclusive()
			return
		}
		if err != nil {
			if strings.HasPrefix(err.Error(), "INFRA") {
				t.Fatalf("%v", err)
			}
			if Explore(firstLine(err), err) {
				return
			}
			t.Fatalf("%s", ev.Fail(s, "", "%v", err))
		}
	})
	ExploreReport(t)
}

func TestC07_Stack(t *testing.T) {
	ev := NewEv(t, "C07", "stack", "generated profile sets: 1-3 stacked profiles with bodies of 1-8 lines (includes, capability, network, bare and qualified unix rules, signal, ptrace, multi-line dbus rules whose member ends in x, file rules with and without exec modes, with targets, deny x, comments, blanks), a host with '#aa:stack [X] names...' anywhere among 1-5 own lines; oracle: line model written from the statement - host lines unchanged and in order, for each argument in the order given '# Stacked profile: name' followed by the stacked body minus the base include, the entry point and (without X) the file rules with an exec transition, inserted before the trailing local include - and 4 calls in one process give identical text. Non-trivial: >= 2 stacked profiles, or a body with a non-file rule ending in 'x,'; distinct by args + bodies")
	rapid.Check(t, func(t *rapid.T) {
		s := genC07Set(t, "stack")
		key := ""
		if len(s.Profiles) >= 2 {
			key = fmt.Sprint(s.Args, s.Profiles)
		}
		for _, p := range s.Profiles {
			for _, l := range p.Body {
				if strings.Contains(l, "unix,") || strings.Contains(l, "Fox,") || strings.Contains(l, "mux,") {
					key = fmt.Sprint(s.Args, s.Profiles)
				}
			}
		}
		err := c07StackOracle(s)
		ev.Case(key, fmt.Sprintf("stacked:%d", len(s.Profiles)), fmt.Sprintf("X:%v", s.Args[0] == "X"))
		ev.Sample(map[string]any{"args": s.Args, "stacked": len(s.Profiles)})
		if err != nil {
			if strings.HasPrefix(err.Error(), "INFRA") {
				t.Fatalf("%v", err)
			}
			if Explore(firstLine(err), err) {
				return
			}
			t.Fatalf("%s", ev.Fail(s, "", "%v", err))
		}
	})
	ExploreReport(t)
}

func TestC07_Replay(t *testing.T) {
	path := os.Getenv("VERIF_REPLAY")
	if path == "" {
		t.Skip("no VERIF_REPLAY")
	}
	rf, err := LoadReplay(path, nil)
	if err != nil {
		t.Fatal(err)
	}
	ev := NewEv(t, "C07", "replay", "replay of one saved case")
	ev.Case("replay")
	var oerr error
	switch rf.Sub {
	case "dbus":
		var c C07Dbus
		json.Unmarshal(rf.Case, &c)
		oerr = c07DbusOracle(c, true)
	case "exec":
		var s C07Set
		json.Unmarshal(rf.Case, &s)
		oerr = c07ExecOracle(s)
	case "stack":
		var s C07Set
		json.Unmarshal(rf.Case, &s)
		oerr = c07StackOracle(s)
	case "several":
		var c C07Several
		json.Unmarshal(rf.Case, &c)
		oerr = c07SeveralOracle(c)
	case "leftovers":
		var w struct {
			Cell Config `json:"cell"`
			File string `json:"file"`
		}
		json.Unmarshal(rf.Case, &w)
		b, err := BuildShipped(w.Cell, false)
		defer b.Clean()
		if err != nil {
			t.Fatalf("INFRA: %v", err)
		}
		if strings.Contains(readFile(filepath.Join(b.Apparmord(), w.File)), "#aa:") {
			oerr = fmt.Errorf("%s: %s still holds a directive", w.Cell, w.File)
		}
	}
	if oerr != nil && oerr != errInconclusive {
		ev.Violate(json.RawMessage(rf.Case), "", "%v", oerr)
		t.Fatalf("%v", oerr)
	}
}
