package harness

// C07, several directives in one file: what a directive yields does not depend on the other
// directives of the file. Oracle (metamorphic, locality): the expansion of a host with k
// directives equals the host in which every directive line is replaced by what that directive
// yields when it stands alone in the same host. Half of the cases hold two directives of which
// one line is a textual prefix of the other (an argument more, or a longer last value).

import (
	"encoding/json"
	"fmt"
	"strings"
	"testing"

	"pgregory.net/rapid"
)

type C07Several struct {
	Set   C07Set   `json:"set"`   // target profiles for exec directives (Host / Args unused)
	Lines []string `json:"lines"` // host body: rule lines and directive lines
}

func (c C07Several) host(lines []string) string {
	return C07Profile{Name: "host", Exec: []string{"@{bin}/host"}, Body: lines}.Text()
}

func isDirectiveLine(l string) bool { return strings.Contains(l, "#aa:") }

func genC07Several(t *rapid.T) C07Several {
	var c C07Several
	c.Set = genC07Set(t, "exec")
	c.Set.Prelude = ""
	var names []string
	for _, p := range c.Set.Profiles {
		names = append(names, p.Name)
	}
	mkDbus := func(label string) string {
		d := genC07Dbus(t)
		d.Indent = "  "
		return d.directive()
	}
	mkExec := func(label string) string {
		tr := pick(t, label+"tr", []string{"", "P ", "U ", "PU "})
		return "  #aa:exec " + tr + strings.Join(subsetOrdered(t, label+"names", names, 1, len(names)), " ")
	}
	var dirs []string
	if rapid.Bool().Draw(t, "prefixpair") {
		// the first directive line is a textual prefix of the second
		if rapid.Bool().Draw(t, "dbuspair") {
			d := genC07Dbus(t)
			d.Indent = "  "
			first := d.directive()
			var second string
			switch {
			case d.Args["interface"] == "" && d.Action != "common" && rapid.Bool().Draw(t, "extendbyarg"):
				second = first + " interface=org.extra.Iface"
			case d.Args["path"] == "" && rapid.Bool().Draw(t, "extendbypath"):
				second = first + " path=/org/extra"
			default:
				// a longer last value
				last := d.Order[len(d.Order)-1]
				ext := map[string]string{"name": ".Sub", "bus": "", "label": "-x", "path": "/sub", "interface": ".Sub", "interface+": ".Sub"}[last]
				if ext == "" {
					second = first + " path=/org/extra2"
				} else {
					second = first + ext
				}
			}
			dirs = []string{first, second}
		} else if len(names) >= 2 {
			first := "  #aa:exec " + names[0]
			dirs = []string{first, first + " " + names[1]}
		} else {
			first := "  #aa:exec " + names[0]
			dirs = []string{first, first} // the same directive twice: both lines expand alike
		}
		if rapid.Bool().Draw(t, "swap") {
			dirs[0], dirs[1] = dirs[1], dirs[0]
		}
	} else {
		n := rapid.IntRange(2, 3).Draw(t, "ndirs")
		for i := 0; i < n; i++ {
			if rapid.Bool().Draw(t, "dbus?") {
				dirs = append(dirs, mkDbus(fmt.Sprint("d", i)))
			} else {
				dirs = append(dirs, mkExec(fmt.Sprint("e", i)))
			}
		}
	}
	for i, d := range dirs {
		nr := rapid.IntRange(0, 2).Draw(t, "nrules")
		for j := 0; j < nr; j++ {
			c.Lines = append(c.Lines, pick(t, "hostline", []string{"  /etc/host.conf r,", "  capability net_admin,", "  @{bin}/sh rix,", "  # host comment", "", "  network netlink raw,"}))
		}
		c.Lines = append(c.Lines, d)
		_ = i
	}
	c.Lines = append(c.Lines, "  /etc/last r,")
	return c
}

func c07SeveralOracle(c C07Several) error {
	return withProfileSet(c.Set, func(root string) error {
		whole, err := runDirectives(root+"/host", c.host(c.Lines))
		if err != nil {
			return fmt.Errorf("directive.Run fails: %v\n%s", err, c.host(c.Lines))
		}
		// every directive alone, in the same host (the other directive lines taken out)
		var want []string
		for i, l := range c.Lines {
			if !isDirectiveLine(l) {
				want = append(want, l)
				continue
			}
			var alone []string
			for j, o := range c.Lines {
				if j == i || !isDirectiveLine(o) {
					alone = append(alone, o)
				}
			}
			in := c.host(alone)
			out, err := runDirectives(root+"/host", in)
			if err != nil {
				return fmt.Errorf("directive.Run fails on a single directive: %v\n%s", err, in)
			}
			_, gen, _, err := generatedLines(in, out, "#aa:")
			if err != nil {
				return fmt.Errorf("HARNESS: %v", err)
			}
			want = append(want, gen...)
		}
		exp := c.host(want)
		if whole != exp {
			return fmt.Errorf("what the directives of one file yield together differs from what each yields alone:\n%s--- file\n%s--- together\n%s--- each alone, spliced\n%s", firstDiff(whole, exp), c.host(c.Lines), whole, exp)
		}
		return nil
	})
}

func TestC07_Several(t *testing.T) {
	ev := NewEv(t, "C07", "several", "hosts with 2-3 dbus / exec directives (generated as in the dbus and exec stages) between own rules; in half of the cases two directives of which one line is a textual prefix of the other (one more argument, one more profile, a longer last value, or the same directive twice), in either order; oracle (locality): the expansion of the file equals the host with every directive line replaced by what that directive yields alone. Non-trivial: a prefix pair; distinct by host text")
	rapid.Check(t, func(t *rapid.T) {
		c := genC07Several(t)
		key, cls := "", "independent"
		var dl []string
		for _, l := range c.Lines {
			if isDirectiveLine(l) {
				dl = append(dl, l)
			}
		}
		for i := range dl {
			for j := range dl {
				if i != j && strings.HasPrefix(dl[j], dl[i]) {
					key, cls = strings.Join(c.Lines, "\n"), "prefix-pair"
				}
			}
		}
		ev.Case(key, cls)
		ev.Sample(map[string]any{"directives": dl})
		if err := c07SeveralOracle(c); err != nil {
			if strings.HasPrefix(err.Error(), "HARNESS") {
				t.Fatalf("INFRA: %v", err)
			}
			data, _ := json.Marshal(c)
			_ = data
			t.Fatalf("%s", ev.Fail(c, "", "%v", err))
		}
	})
}
