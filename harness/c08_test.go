package harness

// C08 — everything a built policy refers to exists in that same build.

import (
	"encoding/json"
	"fmt"
	"os"
	"path/filepath"
	"regexp"
	"sort"
	"strings"
	"sync"
	"testing"
)

type refUse struct {
	File   string // built file (relative to apparmor.d) or drop-in path
	Block  string // enclosing profile name (full, with //)
	Kind   string // exec-p | exec-c | change_profile | dropin
	Target string
	Line   string
}

type refGraph struct {
	Defined   map[string]bool     // full profile names defined by top-level policy files
	FileDefs  map[string][]string // per file: names of the blocks it defines (relative names for abstractions)
	Uses      []refUse
	Includers map[string][]string // abstraction/mapping file -> profiles (full names) that include it
}

var (
	reBlockHeader = regexp.MustCompile(`^\s*(profile|hat)\s+("[^"]+"|\S+)|^\s*\^(\S+)`)
)

func headerName(line string) (string, bool) {
	t := strings.TrimSpace(line)
	if !strings.HasSuffix(t, "{") || strings.HasPrefix(t, "#") {
		return "", false
	}
	m := reBlockHeader.FindStringSubmatch(t)
	if m == nil {
		return "", false
	}
	name := m[2]
	if m[3] != "" {
		name = m[3]
	}
	name = strings.TrimSuffix(strings.Trim(name, `"`), "{")
	return name, name != ""
}

// scanPolicyFile reads the block structure and the named references of one file.
func scanPolicyFile(rel, text string, topLevel bool, g *refGraph) {
	var stack []string
	depthOf := []int{}
	depth := 0
	for _, raw := range strings.Split(text, "\n") {
		line := raw
		if i := strings.Index(line, " #"); i >= 0 {
			line = line[:i]
		}
		t := strings.TrimSpace(line)
		if t == "" || strings.HasPrefix(t, "#") {
			continue
		}
		if name, ok := headerName(line); ok {
			full := name
			if len(stack) > 0 {
				full = stack[len(stack)-1] + "//" + name
			}
			stack = append(stack, full)
			depthOf = append(depthOf, depth)
			depth++
			if topLevel {
				g.Defined[full] = true
			}
			g.FileDefs[rel] = append(g.FileDefs[rel], full)
			continue
		}
		if strings.HasSuffix(t, "{") {
			depth++ // some other block (if, etc.)
			continue
		}
		if t == "}" {
			depth--
			if len(depthOf) > 0 && depthOf[len(depthOf)-1] == depth {
				stack = stack[:len(stack)-1]
				depthOf = depthOf[:len(depthOf)-1]
			}
			continue
		}
		block := ""
		if len(stack) > 0 {
			block = stack[len(stack)-1]
		}
		if m := reIncludeLine.FindStringSubmatch(raw); m != nil && block != "" {
			g.Includers[m[1]] = append(g.Includers[m[1]], block)
		}
		toks := strings.Fields(t)
		ai := -1
		for i, tk := range toks {
			if tk == "->" {
				ai = i
			}
		}
		if ai < 0 || ai+1 >= len(toks) {
			continue
		}
		target := strings.Trim(strings.TrimSuffix(toks[ai+1], ","), `"`)
		// strip qualifiers
		j := 0
		for j < len(toks) && (toks[j] == "audit" || toks[j] == "deny" || toks[j] == "allow" || toks[j] == "owner") {
			j++
		}
		if j >= len(toks) {
			continue
		}
		switch {
		case toks[j] == "change_profile":
			g.Uses = append(g.Uses, refUse{File: rel, Block: block, Kind: "change_profile", Target: target, Line: t})
		case toks[j] == "mount" || toks[j] == "umount" || toks[j] == "remount" || toks[j] == "link" || toks[j] == "pivot_root" || toks[j] == "alias" || toks[j] == "dbus" || toks[j] == "unix":
			// '->' is a path here, not a profile (pivot_root targets are not used by the tree)
		case isRulePath(toks[j]) && ai >= j+2:
			mode := strings.ToLower(toks[ai-1])
			if !strings.Contains(mode, "x") {
				continue
			}
			kind := "exec-p"
			if strings.Contains(mode, "c") {
				kind = "exec-c"
			}
			g.Uses = append(g.Uses, refUse{File: rel, Block: block, Kind: kind, Target: target, Line: t})
		}
	}
}

var reDropin = regexp.MustCompile(`(?m)^\s*AppArmorProfile=-?(\S+)`)

func buildGraph(b *Build) *refGraph {
	g := &refGraph{Defined: map[string]bool{}, FileDefs: map[string][]string{}, Includers: map[string][]string{}}
	// upstream policy the build is laid over
	up, _ := os.ReadDir("/etc/apparmor.d")
	for _, e := range up {
		if !e.IsDir() {
			tmp := &refGraph{Defined: g.Defined, FileDefs: map[string][]string{}, Includers: map[string][]string{}}
			scanPolicyFile("upstream:"+e.Name(), readFile(filepath.Join("/etc/apparmor.d", e.Name())), true, tmp)
		}
	}
	aad := b.Apparmord()
	for _, f := range listFiles(aad) {
		if strings.HasPrefix(f, "disable/") || strings.HasPrefix(f, "tunables/") {
			continue
		}
		top := !strings.Contains(f, "/")
		scanPolicyFile(f, readFile(filepath.Join(aad, f)), top, g)
	}
	sysRoot := filepath.Join(b.Root(), "systemd")
	for _, f := range listFiles(sysRoot) {
		for _, m := range reDropin.FindAllStringSubmatch(readFile(filepath.Join(sysRoot, f)), -1) {
			g.Uses = append(g.Uses, refUse{File: "systemd/" + f, Kind: "dropin", Target: m[1], Line: strings.TrimSpace(m[0])})
		}
	}
	return g
}

var reGlob = regexp.MustCompile(`[*?\[\]{}]`)

// resolves decides whether a use is satisfied in the graph. vars is the
// reference parser's expansion of the built tunables.
func (g *refGraph) resolves(u refUse, vars map[string][]string) (bool, string) {
	targets := []string{u.Target}
	if strings.Contains(u.Target, "@{") {
		env := c13Env{}
		for k, v := range vars {
			env[k] = v
		}
		exp, err := env.expand(u.Target, 0)
		if err != nil {
			return false, "variable not defined by the built tunables: " + err.Error()
		}
		targets = exp
	}
	for _, tg := range targets {
		if reGlob.MatchString(tg) {
			continue // a pattern names run-time profiles
		}
		for _, comp := range strings.Split(tg, "//&") { // stacks resolve component-wise
			comp = strings.TrimPrefix(comp, "&")
			comp = strings.TrimPrefix(comp, ":") // namespaces are out of scope
			if comp == "unconfined" || comp == "" {
				continue
			}
			ok := false
			switch u.Kind {
			case "exec-c":
				// a child of the enclosing profile; in an abstraction or mapping, a block of the
				// same file or a child of every profile that includes the file
				if u.Block != "" && (g.Defined[u.Block+"//"+comp] || containsStr(g.FileDefs[u.File], u.Block+"//"+comp)) {
					ok = true
				}
				if !ok && u.Block == "" {
					if containsStr(g.FileDefs[u.File], comp) {
						ok = true
					} else if inc := g.Includers[u.File]; len(inc) > 0 {
						ok = true
						for _, p := range inc {
							if !g.Defined[p+"//"+comp] {
								ok = false
							}
						}
					} else {
						ok = true // an abstraction nobody includes: nothing to resolve against
					}
				}
			default:
				ok = g.Defined[comp]
			}
			if !ok {
				return false, fmt.Sprintf("no profile %q in this build", comp)
			}
		}
	}
	return true, ""
}

func builtVariables(b *Build) (map[string][]string, error) {
	ov := b.Dir + "-tun"
	defer os.RemoveAll(ov)
	if err := copyTree("/etc/apparmor.d", ov, nil); err != nil {
		return nil, err
	}
	if err := copyTree(filepath.Join(b.Apparmord(), "tunables"), filepath.Join(ov, "tunables"), func(rel string, data []byte) []byte {
		// 3.0.8 reads a trailing comment on a variable line as values: strip them
		var out []string
		for _, l := range strings.Split(string(data), "\n") {
			if strings.HasPrefix(strings.TrimSpace(l), "@{") {
				if i := strings.Index(l, " #"); i >= 0 {
					l = l[:i]
				}
			}
			out = append(out, l)
		}
		return []byte(strings.Join(out, "\n"))
	}); err != nil {
		return nil, err
	}
	if b.Cfg.Version == "4.1" {
		// AppArmor 4.1 ships this file itself: the tree's copy stands in for upstream 4.1
		copyFile(filepath.Join(repoRoot(), "apparmor.d", "tunables", "multiarch.d", "base"), filepath.Join(ov, "tunables", "multiarch.d", "base"))
	}
	return Ref{Base: ov}.Expand("abi <abi/3.0>,\ninclude <tunables/global>\nprofile verif-stub {\n}\n")
}

func c08Configs() []Config {
	// mode does not change names: 30 configurations, exhaustive
	var res []Config
	for _, d := range allDists {
		for _, av := range primaryAV {
			for _, f := range []bool{false, true} {
				res = append(res, Config{Dist: d, ABI: av.ABI, Version: av.Ver, Full: f})
			}
		}
	}
	return res
}

func TestC08_Builds(t *testing.T) {
	if err := haveBins(); err != nil {
		t.Fatalf("INFRA: %v", err)
	}
	if err := refAvailable(); err != nil {
		t.Fatalf("INFRA: %v", err)
	}
	ev := NewEv(t, "C08", "builds", "all 30 (distribution, ABI, version, full) builds of the shipped tree with the real binary, enumerated completely (the mode does not change names); oracle: independent reference-graph scanner over .build - definitions: top-level profiles, sub-profiles and hats (N//C), plus the upstream policy directory the build is laid over; uses: named exec targets (child targets inside the enclosing profile, stacks component-wise), change_profile targets, AppArmorProfile= of the drop-ins; targets with variables are expanded with the reference parser's expansion of the built tunables, pattern targets name run-time profiles. Non-trivial: a reference that crosses files; distinct by (user, target)")
	ev.Exhaustive = true
	cfgs := c08Configs()
	var mu sync.Mutex
	parallel(len(cfgs), 6, func(i int) {
		c := cfgs[i]
		b, err := BuildShipped(c, false)
		defer b.Clean()
		if err != nil {
			mu.Lock()
			t.Errorf("INFRA: %v", err)
			mu.Unlock()
			return
		}
		vars, err := builtVariables(b)
		if err != nil {
			mu.Lock()
			t.Errorf("INFRA: expanding the built tunables of %s: %v", c, err)
			mu.Unlock()
			return
		}
		g := buildGraph(b)
		mu.Lock()
		defer mu.Unlock()
		dangling := 0
		for _, u := range g.Uses {
			key := ""
			if u.Kind != "exec-c" {
				key = u.File + "->" + u.Target
			}
			ev.Case(key, "kind:"+u.Kind)
			ok, why := g.resolves(u, vars)
			if ok {
				continue
			}
			dangling++
			k := fmt.Sprintf("dangling:%s->%s", strings.TrimSuffix(u.File, ".apparmor.d"), u.Target)
			if IsKnown("C08", k) {
				ev.KnownFinding(k, fmt.Sprintf("%s: %q: %s", u.File, u.Line, why))
				continue
			}
			ev.Violate(map[string]any{"config": c, "file": u.File, "target": u.Target}, k, "%s: %s (in %s): %q refers to %q: %s", c, u.File, u.Block, u.Line, u.Target, why)
			t.Errorf("%s: %s: %q -> %s: %s", c, u.File, u.Line, u.Target, why)
		}
		ev.Sample(map[string]any{"config": c.String(), "definitions": len(g.Defined), "named_uses": len(g.Uses), "dangling": dangling})
	})
}

// TestC08_Source: names used by directives and manifests exist in the source tree.
func TestC08_Source(t *testing.T) {
	ev := NewEv(t, "C08", "source", "source side, enumerated completely: every profile named by an exec / stack directive, by a flags manifest line and by the overwrite list exists in the source tree. Non-trivial: every (manifest or directive, name); distinct by that pair")
	ev.Exhaustive = true
	src := repoRoot()
	names := map[string]bool{}
	for rel := range sourceTextIndex() {
		names[rel] = true
	}
	check := func(where, name string) {
		ev.Case(where + ":" + name)
		if names[name] {
			return
		}
		k := "source:" + where + ":" + name
		if IsKnown("C08", k) {
			ev.KnownFinding(k, fmt.Sprintf("%s names %q, which is not in the source tree", where, name))
			return
		}
		ev.Violate(map[string]string{"where": where, "name": name}, k, "%s names %q, which does not exist in the source tree", where, name)
		t.Errorf("%s names %q, which does not exist in the source tree", where, name)
	}
	for _, f := range []string{"main", "arch", "debian", "ubuntu", "opensuse", "whonix"} {
		for _, line := range readManifestLines(filepath.Join(src, "dists", "flags", f+".flags")) {
			check("dists/flags/"+f+".flags", strings.Fields(line)[0])
		}
	}
	for _, name := range readManifestLines(filepath.Join(src, "dists", "overwrite")) {
		check("dists/overwrite", name)
	}
	reDir := regexp.MustCompile(`(?m)#aa:(exec|stack)\s+(.*)$`)
	idx := sourceTextIndex()
	var files []string
	for f := range idx {
		files = append(files, f)
	}
	sort.Strings(files)
	n := 0
	for _, f := range files {
		for _, m := range reDir.FindAllStringSubmatch(idx[f], -1) {
			for i, arg := range strings.Fields(m[2]) {
				if i == 0 && (arg == "X" || containsStr([]string{"P", "U", "p", "u", "PU", "pu"}, arg)) {
					continue
				}
				n++
				check("#aa:"+m[1]+" in "+f, arg)
			}
		}
	}
	ev.Sample(map[string]any{"source_files": len(idx), "directive_arguments": n})
}

func TestC08_Replay(t *testing.T) {
	path := os.Getenv("VERIF_REPLAY")
	if path == "" {
		t.Skip("no VERIF_REPLAY")
	}
	var w struct {
		Config Config `json:"config"`
		File   string `json:"file"`
		Target string `json:"target"`
	}
	rf, err := LoadReplay(path, &w)
	if err != nil {
		t.Fatal(err)
	}
	ev := NewEv(t, "C08", "replay", "replay of one saved case")
	ev.Case("replay")
	if rf.Sub != "builds" {
		t.Skip("source-side cases are re-checked by the quick tier itself")
	}
	b, err := BuildShipped(w.Config, false)
	defer b.Clean()
	if err != nil {
		t.Fatalf("INFRA: %v", err)
	}
	vars, err := builtVariables(b)
	if err != nil {
		t.Fatalf("INFRA: %v", err)
	}
	g := buildGraph(b)
	for _, u := range g.Uses {
		if u.File == w.File && u.Target == w.Target {
			if ok, why := g.resolves(u, vars); !ok {
				ev.Violate(json.RawMessage(rf.Case), "", "%s: %s -> %s: %s", w.Config, u.File, u.Target, why)
				t.Fatalf("%s: %s -> %s: %s", w.Config, u.File, u.Target, why)
			}
		}
	}
}
