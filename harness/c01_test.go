package harness

// C01 — every built policy file loads in the reference AppArmor parser, in every configuration.

import (
	"encoding/json"
	"fmt"
	"io"
	"os"
	"path/filepath"
	"regexp"
	"sort"
	"strings"
	"sync"
	"testing"
)

func copyTree(src, dst string, transform func(rel string, data []byte) []byte) error {
	return filepath.Walk(src, func(path string, info os.FileInfo, err error) error {
		if err != nil {
			return err
		}
		rel, _ := filepath.Rel(src, path)
		target := filepath.Join(dst, rel)
		switch {
		case info.Mode()&os.ModeSymlink != 0:
			t, err := os.Readlink(path)
			if err != nil {
				return err
			}
			os.Remove(target)
			return os.Symlink(t, target)
		case info.IsDir():
			return os.MkdirAll(target, 0o755)
		default:
			data, err := os.ReadFile(path)
			if err != nil {
				return err
			}
			if transform != nil {
				data = transform(rel, data)
			}
			return os.WriteFile(target, data, 0o644)
		}
	})
}

func copyFile(src, dst string) error {
	in, err := os.Open(src)
	if err != nil {
		return err
	}
	defer in.Close()
	if err := os.MkdirAll(filepath.Dir(dst), 0o755); err != nil {
		return err
	}
	out, err := os.Create(dst)
	if err != nil {
		return err
	}
	defer out.Close()
	_, err = io.Copy(out, in)
	return err
}

var reAbi4 = regexp.MustCompile(`abi/4\.0`)

// aa4Only: rule kinds that only exist in AppArmor 4 (the statement sets them aside).
var aa4Only = map[string]bool{"userns": true, "mqueue": true, "io_uring": true, "all": true}

// normaliseForRef applies the only normalisation the property grants to ABI 4
// targets: abi/4.0 -> abi/3.0 and whole rules whose keyword (after qualifiers)
// is userns, mqueue, io_uring or all are commented out.
func normaliseForRef(text string) string {
	lines := strings.Split(text, "\n")
	for i, l := range lines {
		toks := strings.Fields(l)
		j := 0
		for j < len(toks) && (toks[j] == "audit" || toks[j] == "deny" || toks[j] == "allow") {
			j++
		}
		if j < len(toks) {
			kw := strings.TrimSuffix(toks[j], ",")
			if aa4Only[kw] && strings.HasSuffix(strings.TrimSpace(cutComment(l)), ",") {
				lines[i] = "#" + l
				continue
			}
		}
		if strings.Contains(l, "abi/4.0") && strings.HasPrefix(strings.TrimSpace(l), "abi ") {
			lines[i] = reAbi4.ReplaceAllString(l, "abi/3.0")
		}
	}
	return strings.Join(lines, "\n")
}

func cutComment(l string) string {
	if i := strings.Index(l, " #"); i >= 0 {
		return l[:i]
	}
	return l
}

// upstreamed41: files that `configure` deletes for AppArmor 4.1 because that
// release ships them; the tree's own copies stand in for upstream 4.1.
var upstreamed41 = []string{"abstractions/devices-usb-read", "abstractions/devices-usb", "abstractions/nameservice-strict", "tunables/multiarch.d/base", "wg"}

type refFileResult struct {
	File string
	OK   bool
	Msg  string
}

// makeOverlay lays the build output over the upstream policy directory.
func makeOverlay(b *Build, src string) (string, error) {
	ov := b.Dir + "-overlay"
	if err := os.MkdirAll(ov, 0o755); err != nil {
		return "", err
	}
	if err := copyTree("/etc/apparmor.d", ov, nil); err != nil {
		return "", err
	}
	tr := func(rel string, data []byte) []byte {
		if b.Cfg.ABI == 4 {
			return []byte(normaliseForRef(string(data)))
		}
		return data
	}
	if err := copyTree(b.Apparmord(), ov, tr); err != nil {
		return "", err
	}
	if b.Cfg.Version == "4.1" {
		for _, f := range upstreamed41 {
			p := filepath.Join(src, "apparmor.d", f)
			if _, err := os.Stat(p); err != nil {
				// grouped profile (wg)
				m, _ := filepath.Glob(filepath.Join(src, "apparmor.d", "*", f))
				m2, _ := filepath.Glob(filepath.Join(src, "apparmor.d", "groups", "*", f))
				m = append(m, m2...)
				if len(m) == 0 {
					continue
				}
				p = m[0]
			}
			if _, err := os.Stat(filepath.Join(ov, f)); err == nil {
				continue
			}
			data, err := os.ReadFile(p)
			if err != nil {
				continue
			}
			os.MkdirAll(filepath.Dir(filepath.Join(ov, f)), 0o755)
			os.WriteFile(filepath.Join(ov, f), []byte(normaliseForRef(string(data))), 0o644)
		}
	}
	return ov, nil
}

// refCheckBuild shows every file of a build to the reference parser.
// compileAlways: files whose text holds rules generated from other profiles
// (stack / exec directives) are compiled in full in every tier: conflicting x
// modifiers only show when the rules are merged, which a parse-only run skips.
func compileAlways(srcText string) bool {
	return strings.Contains(srcText, "#aa:stack") || strings.Contains(srcText, "#aa:exec")
}

func refCheckBuild(b *Build, src string, compile bool) ([]refFileResult, error) {
	ov, err := makeOverlay(b, src)
	if err != nil {
		return nil, err
	}
	defer os.RemoveAll(ov)
	ref := Ref{Base: ov, Features: true}
	type job struct {
		name string
		path string // file to parse
	}
	var jobs []job
	entries, err := os.ReadDir(b.Apparmord())
	if err != nil {
		return nil, err
	}
	for _, e := range entries {
		if e.IsDir() {
			continue
		}
		jobs = append(jobs, job{e.Name(), filepath.Join(ov, e.Name())})
	}
	// Abstractions, tunables and mappings are covered through the profiles that
	// include them (the statement): parsing a profile makes the reference parser
	// read its whole include closure. Files that no profile includes are out of
	// the statement's reach; how many are reached is measured by includeClosure.
	srcIdx := sourceTextIndex()
	res := make([]refFileResult, len(jobs))
	parallel(len(jobs), 16, func(i int) {
		full := compile || compileAlways(srcIdx[strings.TrimSuffix(jobs[i].name, ".apparmor.d")])
		ok, msg := ref.AcceptsFile(jobs[i].path, full)
		msg = strings.ReplaceAll(msg, ov, "<overlay>")
		res[i] = refFileResult{File: jobs[i].name, OK: ok, Msg: msg}
	})
	return res, nil
}

func c01Configs() (parse []Config, compile []Config) {
	all := PrimaryConfigs()
	if isThorough() {
		for _, d := range allDists {
			compile = append(compile, Config{Dist: d, ABI: 3, Version: "3.0"}, Config{Dist: d, ABI: 4, Version: "4.1", Full: true})
		}
		// the ABI and the version are separate options: the cross pairs too
		for _, d := range allDists {
			for _, av := range allAV[3:] {
				all = append(all, Config{Dist: d, ABI: av.ABI, Version: av.Ver}, Config{Dist: d, ABI: av.ABI, Version: av.Ver, Full: true, Mode: "complain"})
			}
		}
		return all, compile
	}
	// quick: 8 configurations parsed (+ 2 cross ABI / version pairs), one --full configuration compiled completely
	d := allDists[seedInt()%len(allDists)]
	av := primaryAV[seedInt()%len(primaryAV)]
	parse = coveringSample(all, 8, seedInt())
	cross := allAV[3:]
	parse = append(parse, Config{Dist: allDists[(seedInt()+1)%len(allDists)], ABI: 3, Version: cross[seedInt()%2].Ver},
		Config{Dist: allDists[(seedInt()+2)%len(allDists)], ABI: 4, Version: "3.0", Full: true, Mode: allModes[(seedInt()+1)%3]})
	return parse, []Config{{Dist: d, ABI: av.ABI, Version: av.Ver, Full: true, Mode: allModes[seedInt()%3]}}
}

func sourceTextIndex() map[string]string {
	idx := map[string]string{}
	root := filepath.Join(repoRoot(), "apparmor.d")
	filepath.Walk(root, func(path string, info os.FileInfo, err error) error {
		if err != nil || info.IsDir() {
			return nil
		}
		rel, _ := filepath.Rel(root, path)
		idx[flattenRel(rel)] = readFile(path)
		return nil
	})
	return idx
}

func TestC01_Shipped(t *testing.T) {
	if err := haveBins(); err != nil {
		t.Fatalf("INFRA: %v", err)
	}
	if err := refAvailable(); err != nil {
		t.Fatalf("INFRA: %v", err)
	}
	ev := NewEv(t, "C01", "shipped", "the shipped tree built with the real binary for a set of configurations (all 90 primary configurations and 30 with the cross ABI / version pairs in thorough, plus a full DFA compilation of 10; a seeded covering sample of 8 in quick - every distribution, every ABI/version pair, every mode, full and normal - plus 2 cross pairs); every top-level file of .build/apparmor.d is parsed by apparmor_parser 3.0.8 (-Q -K) over an overlay of the upstream policy directory and the build output; every abstraction and mapping through a stub profile. For ABI 4 targets only abi/4.0 -> abi/3.0 and the four AppArmor-4-only rule kinds are set aside. Non-trivial: a (configuration, file) pair whose built text differs from its source; distinct by configuration + file + content hash")
	ev.Assume("apparmor_parser 3.0.8 with the upstream 3.0.8 policy tree is the reference parser", "for version 4.1 the five files that `configure` removes are taken from the source tree as stand-ins for upstream 4.1")
	parseCfgs, compileCfgs := c01Configs()
	ev.Exhaustive = isThorough()
	srcIdx := sourceTextIndex()
	var mu sync.Mutex
	run := func(c Config, compile bool) {
		b, err := BuildShipped(c, false)
		defer b.Clean()
		if err != nil {
			mu.Lock()
			t.Errorf("INFRA: %v", err)
			ev.Note("INFRA: build %s failed: %v", c, firstLine(err))
			mu.Unlock()
			return
		}
		results, err := refCheckBuild(b, repoRoot(), compile)
		if err != nil {
			mu.Lock()
			t.Errorf("INFRA: %v", err)
			mu.Unlock()
			return
		}
		mu.Lock()
		defer mu.Unlock()
		nfail := 0
		for _, r := range results {
			key := ""
			built := readFile(filepath.Join(b.Apparmord(), r.File))
			name := strings.TrimSuffix(r.File, ".apparmor.d")
			if built != srcIdx[name] {
				key = fmt.Sprintf("%s|%s|%x", c, r.File, hashOf(built))
			}
			cls := "parse"
			if compile {
				cls = "compile"
			}
			ev.Case(key, cls, "cfg:"+c.String())
			if !r.OK {
				nfail++
				k := fmt.Sprintf("%s:%s", modeClass(c), r.File)
				if IsKnown("C01", k) {
					ev.KnownFinding(k, firstLine(fmt.Errorf("%s", r.Msg)))
					continue
				}
				ev.Violate(map[string]any{"config": c, "file": r.File, "compile": compile}, k, "%s: %s is rejected by the reference parser: %s", c, r.File, r.Msg)
				t.Errorf("%s: %s rejected: %s", c, r.File, firstLine(fmt.Errorf("%s", r.Msg)))
			}
		}
		reached := includeClosure(b)
		nabs, rabs := 0, 0
		var unreached []string
		for _, sub := range []string{"abstractions", "tunables", "mappings"} {
			for _, rel := range listFiles(filepath.Join(b.Apparmord(), sub)) {
				nabs++
				if reached[sub+"/"+rel] {
					rabs++
				} else if len(unreached) < 12 {
					unreached = append(unreached, sub+"/"+rel)
				}
			}
		}
		ev.Sample(map[string]any{"config": c.String(), "profiles_parsed": len(results), "rejected": nfail, "compile": compile,
			"abstractions_tunables_mappings": nabs, "reached_through_profiles": rabs, "not_included_by_any_profile": unreached})
	}
	parallel(len(parseCfgs), 4, func(i int) { run(parseCfgs[i], false) })
	for _, c := range compileCfgs {
		run(c, true)
	}
	ev.Note("%d configurations parsed, %d compiled", len(parseCfgs), len(compileCfgs))
}

func modeClass(c Config) string {
	m := c.Mode
	if m == "" {
		m = "none"
	}
	return m
}

func TestC01_Replay(t *testing.T) {
	path := os.Getenv("VERIF_REPLAY")
	if path == "" {
		t.Skip("no VERIF_REPLAY")
	}
	var w struct {
		Config  Config `json:"config"`
		File    string `json:"file"`
		Compile bool   `json:"compile"`
	}
	rf, err := LoadReplay(path, &w)
	if err != nil {
		t.Fatal(err)
	}
	ev := NewEv(t, "C01", "replay", "replay of one saved case")
	ev.Case("replay")
	b, err := BuildShipped(w.Config, false)
	defer b.Clean()
	if err != nil {
		t.Fatalf("INFRA: %v", err)
	}
	results, err := refCheckBuild(b, repoRoot(), w.Compile)
	if err != nil {
		t.Fatalf("INFRA: %v", err)
	}
	sort.Slice(results, func(i, j int) bool { return results[i].File < results[j].File })
	for _, r := range results {
		if r.File == w.File && !r.OK {
			ev.Violate(json.RawMessage(rf.Case), "", "%s: %s rejected: %s", w.Config, r.File, r.Msg)
			t.Fatalf("%s: %s rejected: %s", w.Config, r.File, r.Msg)
		}
	}
}

var reIncludeLine = regexp.MustCompile(`(?m)^\s*#?include\s+(?:if exists\s+)?<([^>]+)>`)

// includeClosure returns the files of the build (relative to apparmor.d) that
// are reached from its top-level profiles through include lines, resolved in
// the build output first and the upstream policy directory second.
func includeClosure(b *Build) map[string]bool {
	reached := map[string]bool{}
	var visit func(rel string)
	resolve := func(rel string) []string {
		var files []string
		for _, base := range []string{b.Apparmord(), "/etc/apparmor.d"} {
			p := filepath.Join(base, rel)
			st, err := os.Stat(p)
			if err != nil {
				continue
			}
			if st.IsDir() {
				entries, _ := os.ReadDir(p)
				for _, e := range entries {
					if !e.IsDir() {
						files = append(files, filepath.Join(rel, e.Name()))
					}
				}
			} else {
				files = append(files, rel)
			}
		}
		return files
	}
	visit = func(rel string) {
		if reached[rel] {
			return
		}
		reached[rel] = true
		text := readFile(filepath.Join(b.Apparmord(), rel))
		if text == "" {
			text = readFile(filepath.Join("/etc/apparmor.d", rel))
		}
		for _, m := range reIncludeLine.FindAllStringSubmatch(text, -1) {
			for _, f := range resolve(m[1]) {
				visit(f)
			}
		}
	}
	entries, _ := os.ReadDir(b.Apparmord())
	for _, e := range entries {
		if !e.IsDir() {
			visit(e.Name())
		}
	}
	return reached
}
