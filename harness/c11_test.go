package harness

// C11 — rule ordering is a consistent total preorder, so sorting is canonical.

import (
	"encoding/json"
	"fmt"
	"os"
	"os/exec"
	"path/filepath"
	"strings"
	"sync/atomic"
	"testing"

	"github.com/roddhjav/apparmor.d/pkg/aa"
	"pgregory.net/rapid"
)

var c11Kinds = append(append([]string{}, allKinds...), "include")

func genC11Rule(t *rapid.T, kind string, comments bool) RS {
	if kind == "include" {
		f := map[string]any{"Path": pick(t, "incpath", []string{"abstractions/base", "abstractions/Base", "abstractions/foo", "local/x", "/etc/x"})}
		if rapid.Bool().Draw(t, "magic") {
			f["IsMagic"] = true
		}
		if rapid.Bool().Draw(t, "ifexists") {
			f["IfExists"] = true
		}
		return RS{Kind: "include", F: f}
	}
	return GenRule(t, kind, GenOpt{V: NarrowVocab, Small: true, Comments: comments})
}

// wide file-path pool for the prefix-group logic: every recognised prefix,
// with and without a following component, plus unrecognised prefixes.
func c11FilePaths() []string {
	res := append([]string{}, NarrowVocab.Paths...)
	for _, p := range fileAlphabetPrefixes {
		res = append(res, p, p+"/a", p+"/B")
	}
	res = append(res, "/usr/lib/x", "/usr/bin/x", "/srv/a", "/run/x", "/sys/x", "@{MOUNTS}/a", "@{user_share_dirs}/x", "/a", "/z")
	return res
}

var c11FileVocab = func() Vocab { v := NarrowVocab; v.Paths = c11FilePaths(); return v }()

func genC11SameKind(t *rapid.T, n int) []RS {
	kind := pick(t, "kind", c11Kinds)
	// file rules are where the interesting logic is: weight them up
	if chance(t, "forcefile", 3) {
		kind = "file"
	}
	res := make([]RS, n)
	for i := range res {
		if kind == "file" {
			res[i] = GenRule(t, kind, GenOpt{V: c11FileVocab, Small: true, Comments: true})
		} else {
			res[i] = genC11Rule(t, kind, true)
		}
		// near-duplicate: copy an earlier rule and change at most one field
		if i > 0 && chance(t, "neardup", 3) {
			base := res[rapid.IntRange(0, i-1).Draw(t, "dupof")].Clone()
			fresh := res[i]
			keys := sortedKeys(fresh.F)
			if len(keys) > 0 {
				k := keys[rapid.IntRange(0, len(keys)-1).Draw(t, "dupfield")]
				base.F[k] = fresh.F[k]
			}
			res[i] = base
		}
	}
	return res
}

func sortedKeys(m map[string]any) []string {
	keys := make([]string, 0, len(m))
	for k := range m {
		keys = append(keys, k)
	}
	for i := 1; i < len(keys); i++ {
		for j := i; j > 0 && keys[j-1] > keys[j]; j-- {
			keys[j-1], keys[j] = keys[j], keys[j-1]
		}
	}
	return keys
}

func c11Nontrivial(rs []RS) string {
	// a recognised-prefix and an unrecognised-prefix file rule together, or two
	// rules differing only in case / owner / qualifier
	hasRec, hasUnrec := false, false
	for _, r := range rs {
		if r.Kind != "file" {
			continue
		}
		p := r.Str("Path")
		rec := false
		for _, pre := range fileAlphabetPrefixes {
			if strings.HasPrefix(p, pre) {
				rec = true
			}
		}
		if rec {
			hasRec = true
		} else {
			hasUnrec = true
		}
	}
	nt := hasRec && hasUnrec
	for i := range rs {
		for j := i + 1; j < len(rs); j++ {
			a, b := rs[i].Canon(false), rs[j].Canon(false)
			if a != b && strings.EqualFold(a, b) {
				nt = true
			}
			if a != b && diffOnly(rs[i], rs[j], "Owner", "Audit", "AccessType") {
				nt = true
			}
		}
	}
	if !nt {
		return ""
	}
	parts := make([]string, len(rs))
	for i, r := range rs {
		parts[i] = r.Canon(false)
	}
	return strings.Join(parts, " || ")
}

func diffOnly(a, b RS, fields ...string) bool {
	if a.Kind != b.Kind {
		return false
	}
	ca, cb := a.Clone(), b.Clone()
	for _, f := range fields {
		delete(ca.F, f)
		delete(cb.F, f)
	}
	return ca.Canon(false) == cb.Canon(false)
}

type C11Tuple struct {
	R []RS `json:"rules"`
}

func safeCompare(a, b aa.Rule) (res int, err error) {
	defer func() {
		if p := recover(); p != nil {
			err = fmt.Errorf("Compare panicked: %v", p)
		}
	}()
	return a.Compare(b), nil
}

func c11PairOracle(c C11Tuple) error {
	a, b := c.R[0].ToRule(), c.R[1].ToRule()
	ab, err := safeCompare(a, b)
	if err != nil {
		return err
	}
	ba, err := safeCompare(b, a)
	if err != nil {
		return err
	}
	if sign(ab) != -sign(ba) {
		return fmt.Errorf("not antisymmetric: cmp(a,b)=%d cmp(b,a)=%d for a=%s b=%s", ab, ba, c.R[0].Canon(false), c.R[1].Canon(false))
	}
	if ab == 0 && !SameMeaningFields(a, b) {
		return fmt.Errorf("distinct rules compare equal: a=%s b=%s", c.R[0].Canon(false), c.R[1].Canon(false))
	}
	if aa2, _ := safeCompare(a, a); aa2 != 0 {
		return fmt.Errorf("not reflexive: cmp(a,a)=%d for %s", aa2, c.R[0].Canon(false))
	}
	return nil
}

func c11TripleOracle(c C11Tuple) error {
	r := rsToRules(c.R)
	le := func(i, j int) bool { v, _ := safeCompare(r[i], r[j]); return v <= 0 }
	// check all 6 orderings of the triple
	perms := [][3]int{{0, 1, 2}, {0, 2, 1}, {1, 0, 2}, {1, 2, 0}, {2, 0, 1}, {2, 1, 0}}
	for _, p := range perms {
		if le(p[0], p[1]) && le(p[1], p[2]) && !le(p[0], p[2]) {
			return fmt.Errorf("not transitive: a<=b, b<=c but a>c with a=%s b=%s c=%s",
				c.R[p[0]].Canon(false), c.R[p[1]].Canon(false), c.R[p[2]].Canon(false))
		}
	}
	return nil
}

type C11List struct {
	L    []RS  `json:"rules"`
	Perm []int `json:"perm"`
}

func safeSortPrint(l aa.Rules) (out string, err error) {
	defer func() {
		if p := recover(); p != nil {
			err = fmt.Errorf("Sort/String panicked: %v", p)
		}
	}()
	aa.IndentationLevel = 0
	return l.Sort().String(), nil
}

func c11ListOracle(c C11List) error {
	base := rsToRules(c.L)
	perm := make(aa.Rules, len(c.L))
	for i, p := range c.Perm {
		perm[i] = c.L[p].ToRule()
	}
	s1, err := safeSortPrint(base)
	if err != nil {
		return err
	}
	s2, err := safeSortPrint(perm)
	if err != nil {
		return err
	}
	if s1 != s2 {
		return fmt.Errorf("sorting a permutation of the same rules gives different output:\n--- order A\n%s--- order B\n%s", s1, s2)
	}
	// idempotence: sort the sorted list again
	s3, err := safeSortPrint(base)
	if err != nil {
		return err
	}
	if s3 != s1 {
		return fmt.Errorf("sorting twice changes the output:\n--- once\n%s--- twice\n%s", s1, s3)
	}
	// the multiset of rules is preserved
	if len(base) != len(c.L) {
		return fmt.Errorf("Sort changed the number of rules: %d -> %d", len(c.L), len(base))
	}
	return nil
}

func TestC11_Pairs(t *testing.T) {
	ev := NewEv(t, "C11", "pairs", "pairs of same-kind rules from a narrow vocabulary (near-duplicates forced 1/3 of the time); oracle: antisymmetry, reflexivity, equal => identical on every non-Base field. Non-trivial: pair mixes recognised/unrecognised file prefixes, or differs only in case/owner/qualifier; distinct by canonical field text")
	rapid.Check(t, func(t *rapid.T) {
		c := C11Tuple{R: genC11SameKind(t, 2)}
		ev.Case(c11Nontrivial(c.R), "kind:"+c.R[0].Kind)
		ev.Sample(c)
		if err := c11PairOracle(c); err != nil {
			t.Fatalf("%s", ev.Fail(c, "", "%v", err))
		}
	})
}

func TestC11_Triples(t *testing.T) {
	ev := NewEv(t, "C11", "triples", "triples of same-kind rules (file rules weighted up, paths over every recognised prefix and unrecognised ones); oracle: transitivity of <= over all 6 arrangements. Non-trivial as for pairs")
	rapid.Check(t, func(t *rapid.T) {
		c := C11Tuple{R: genC11SameKind(t, 3)}
		ev.Case(c11Nontrivial(c.R), "kind:"+c.R[0].Kind)
		ev.Sample(c)
		if err := c11TripleOracle(c); err != nil {
			t.Fatalf("%s", ev.Fail(c, "", "%v", err))
		}
	})
}

func TestC11_Lists(t *testing.T) {
	ev := NewEv(t, "C11", "lists", "lists of 2-30 rules of mixed kinds (no comments, so ties are fully identical) and a random permutation; oracle: print(Sort(perm(L))) == print(Sort(L)), Sort idempotent. Non-trivial as for pairs")
	rapid.Check(t, func(t *rapid.T) {
		n := rapid.IntRange(2, 30).Draw(t, "n")
		mixed := rapid.Bool().Draw(t, "mixed")
		var l []RS
		kind := pick(t, "kind", c11Kinds)
		if rapid.Bool().Draw(t, "forcefile") {
			kind = "file"
		}
		for i := 0; i < n; i++ {
			k := kind
			if mixed {
				k = pick(t, "k", c11Kinds)
			}
			var r RS
			if k == "file" {
				r = GenRule(t, k, GenOpt{V: c11FileVocab, Small: true})
			} else {
				r = genC11Rule(t, k, false)
			}
			l = append(l, r)
		}
		perm := rapid.Permutation(intRange(n)).Draw(t, "perm")
		c := C11List{L: l, Perm: perm}
		ev.Case(c11Nontrivial(l), fmt.Sprintf("mixed:%v", mixed))
		ev.Sample(c)
		if err := c11ListOracle(c); err != nil {
			t.Fatalf("%s", ev.Fail(c, "", "%v", err))
		}
	})
}

// ---------------------------------------------------------------------------
// fresh processes: "the same for every order in which the same rules are supplied" also
// forbids a comparison that remembers what it compared before. Inside one process such a
// memory is consistent with itself; it shows when the same rules are sorted by processes
// that have seen nothing else.

// TestC11_Child sorts the list given in VERIF_C11_CHILD (a file with a C11List) in the order
// given by its permutation and prints the result.
func TestC11_Child(t *testing.T) {
	path := os.Getenv("VERIF_C11_CHILD")
	if path == "" {
		t.Skip("child mode only")
	}
	data, err := os.ReadFile(path)
	if err != nil {
		t.Fatal(err)
	}
	var c C11List
	if err := json.Unmarshal(data, &c); err != nil {
		t.Fatal(err)
	}
	l := make(aa.Rules, len(c.L))
	for i, p := range c.Perm {
		l[i] = c.L[p].ToRule()
	}
	out, err := safeSortPrint(l)
	if err != nil {
		fmt.Printf("C11OUT-BEGIN\nERR %v\nC11OUT-END\n", err)
		return
	}
	fmt.Printf("C11OUT-BEGIN\n%sC11OUT-END\n", out)
}

var c11ChildSeq int64

func c11Child(c C11List) (string, error) {
	data, _ := json.Marshal(c)
	f := filepath.Join(refScratch(), fmt.Sprintf("c11-%d-%d.json", os.Getpid(), atomic.AddInt64(&c11ChildSeq, 1)))
	if err := os.WriteFile(f, data, 0o644); err != nil {
		return "", err
	}
	defer os.Remove(f)
	cmd := exec.Command(os.Args[0], "-test.run", "^TestC11_Child$", "-test.v")
	cmd.Env = append(os.Environ(), "VERIF_C11_CHILD="+f, "VERIF_EV_OUT=")
	out, err := cmd.CombinedOutput()
	if err != nil {
		return "", fmt.Errorf("child: %v: %s", err, tail(string(out), 400))
	}
	text := string(out)
	i, j := strings.Index(text, "C11OUT-BEGIN\n"), strings.Index(text, "C11OUT-END")
	if i < 0 || j < 0 {
		return "", fmt.Errorf("child printed no result: %s", tail(text, 400))
	}
	return text[i+len("C11OUT-BEGIN\n") : j], nil
}

func c11FreshOracle(c C11List) error {
	ident := C11List{L: c.L, Perm: intRange(len(c.L))}
	a, err := c11Child(ident)
	if err != nil {
		return fmt.Errorf("INFRA: %v", err)
	}
	b, err := c11Child(c)
	if err != nil {
		return fmt.Errorf("INFRA: %v", err)
	}
	if a != b {
		return fmt.Errorf("two fresh processes sorting the same rules supplied in different orders print different results:\n--- order A\n%s--- order B\n%s", a, b)
	}
	// and this process, which has compared many other rules before, agrees with them
	here, err := safeSortPrint(rsToRules(c.L))
	if err != nil {
		return err
	}
	if here != a {
		return fmt.Errorf("a fresh process and a process that has sorted other rules before print different results for the same rules:\n--- fresh\n%s--- after other work\n%s", a, here)
	}
	return nil
}

func TestC11_Fresh(t *testing.T) {
	ev := NewEv(t, "C11", "fresh", "lists of 2-12 rules (file rules 2/3 of the time, paths sharing a first component with a recognised prefix forced) and a permutation, each order sorted by its own fresh process and once more by this process after all its earlier comparisons; oracle: the three printed results are equal (the comparison has no memory). Non-trivial as for pairs")
	rapid.Check(t, func(t *rapid.T) {
		n := rapid.IntRange(2, 12).Draw(t, "n")
		var l []RS
		for i := 0; i < n; i++ {
			if chance(t, "other", 3) {
				l = append(l, genC11Rule(t, pick(t, "k", c11Kinds), false))
			} else {
				l = append(l, GenRule(t, "file", GenOpt{V: c11FileVocab, Small: true}))
			}
		}
		c := C11List{L: l, Perm: rapid.Permutation(intRange(n)).Draw(t, "perm")}
		ev.Case(c11Nontrivial(l))
		ev.Sample(c)
		if err := c11FreshOracle(c); err != nil {
			if strings.HasPrefix(err.Error(), "INFRA") {
				t.Fatalf("%v", err)
			}
			t.Fatalf("%s", ev.Fail(c, "", "%v", err))
		}
	})
}

// ---------------------------------------------------------------------------
// rule lists holding blocks (hats and sub-profiles are rules of their parent too)

type C11Block struct {
	Kind string   `json:"kind"` // hat | profile
	Name string   `json:"name"`
	Att  []string `json:"att,omitempty"`
}

type C11Mixed struct {
	L      []RS       `json:"rules"`
	Blocks []C11Block `json:"blocks"`
	Perm   []int      `json:"perm"` // permutation of rules followed by blocks
}

func (c C11Mixed) rules(perm []int) aa.Rules {
	var all aa.Rules
	for _, r := range c.L {
		all = append(all, r.ToRule())
	}
	for _, b := range c.Blocks {
		if b.Kind == "hat" {
			all = append(all, &aa.Hat{Name: b.Name})
		} else {
			all = append(all, &aa.Profile{Header: aa.Header{Name: b.Name, Attachments: append([]string{}, b.Att...)}})
		}
	}
	res := make(aa.Rules, len(all))
	for i, p := range perm {
		res[i] = all[p]
	}
	return res
}

func describeRules(l aa.Rules) string {
	var b strings.Builder
	for _, r := range l {
		switch x := r.(type) {
		case *aa.Hat:
			fmt.Fprintf(&b, "hat %s\n", x.Name)
		case *aa.Profile:
			fmt.Fprintf(&b, "profile %s %v\n", x.Name, x.Attachments)
		default:
			b.WriteString(strings.TrimSpace(r.String()) + "\n")
		}
	}
	return b.String()
}

func c11MixedOracle(c C11Mixed) (err error) {
	defer func() {
		if p := recover(); p != nil {
			err = fmt.Errorf("Sort panicked: %v", p)
		}
	}()
	n := len(c.L) + len(c.Blocks)
	a := describeRules(c.rules(intRange(n)).Sort())
	b := describeRules(c.rules(c.Perm).Sort())
	if a != b {
		return fmt.Errorf("sorting the same rules and blocks supplied in another order gives another result:\n--- order A\n%s--- order B\n%s", a, b)
	}
	return nil
}

func TestC11_Mixed(t *testing.T) {
	ev := NewEv(t, "C11", "mixed", "lists of 1-8 rules of mixed kinds plus 1-4 blocks (hats and sub-profiles with names from a narrow pool, sub-profiles with 0-2 attachments) and a permutation; oracle: Sort gives the same sequence for both orders. Non-trivial: a hat and a sub-profile in one list, or two blocks of one kind; distinct by content")
	rapid.Check(t, func(t *rapid.T) {
		var c C11Mixed
		nr := rapid.IntRange(1, 8).Draw(t, "nrules")
		for i := 0; i < nr; i++ {
			c.L = append(c.L, genC11Rule(t, pick(t, "k", c11Kinds), false))
		}
		nb := rapid.IntRange(1, 4).Draw(t, "nblocks")
		seen := map[string]bool{}
		kinds := map[string]int{}
		for i := 0; i < nb; i++ {
			b := C11Block{Kind: pick(t, "bkind", []string{"hat", "profile"}), Name: pick(t, "bname", []string{"sub", "Sub", "foo", "gpg", "x"})}
			if b.Kind == "profile" {
				b.Att = subsetOrdered(t, "att", []string{"@{bin}/foo", "/usr/bin/x"}, 0, 2)
			}
			k := b.Kind + "|" + b.Name + "|" + strings.Join(b.Att, " ")
			if seen[k] {
				continue // identical blocks are indistinguishable: nothing to order
			}
			seen[k] = true
			kinds[b.Kind]++
			c.Blocks = append(c.Blocks, b)
		}
		c.Perm = rapid.Permutation(intRange(len(c.L)+len(c.Blocks))).Draw(t, "perm")
		key := ""
		if (kinds["hat"] > 0 && kinds["profile"] > 0) || kinds["hat"] > 1 || kinds["profile"] > 1 {
			data, _ := json.Marshal(c)
			key = string(data)
		}
		ev.Case(key, fmt.Sprintf("hats:%d", kinds["hat"]), fmt.Sprintf("subprofiles:%d", kinds["profile"]))
		ev.Sample(c)
		if err := c11MixedOracle(c); err != nil {
			t.Fatalf("%s", ev.Fail(c, "", "%v", err))
		}
	})
}

func intRange(n int) []int {
	r := make([]int, n)
	for i := range r {
		r[i] = i
	}
	return r
}

// TestC11_Replay re-executes a saved case without rapid.
func TestC11_Replay(t *testing.T) {
	path := os.Getenv("VERIF_REPLAY")
	if path == "" {
		t.Skip("no VERIF_REPLAY")
	}
	rf, err := LoadReplay(path, nil)
	if err != nil {
		t.Fatal(err)
	}
	ev := NewEv(t, "C11", "replay", "replay of one saved case")
	var oerr error
	switch rf.Sub {
	case "pairs":
		var c C11Tuple
		json.Unmarshal(rf.Case, &c)
		oerr = c11PairOracle(c)
	case "triples":
		var c C11Tuple
		json.Unmarshal(rf.Case, &c)
		oerr = c11TripleOracle(c)
	case "lists":
		var c C11List
		json.Unmarshal(rf.Case, &c)
		oerr = c11ListOracle(c)
	case "mixed":
		var c C11Mixed
		json.Unmarshal(rf.Case, &c)
		oerr = c11MixedOracle(c)
	case "fresh":
		var c C11List
		json.Unmarshal(rf.Case, &c)
		oerr = c11FreshOracle(c)
	default:
		t.Fatalf("unknown sub %q", rf.Sub)
	}
	ev.Case("replay")
	if oerr != nil {
		ev.Violate(json.RawMessage(rf.Case), "", "%v", oerr)
		t.Fatalf("%v", oerr)
	}
}
