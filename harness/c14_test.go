package harness

// C14 — aa-log shows every matching AppArmor event exactly once, and only those.

import (
	"encoding/json"
	"fmt"
	"os"
	"os/exec"
	"path/filepath"
	"regexp"
	"strings"
	"testing"

	"github.com/roddhjav/apparmor.d/pkg/logs"
	"pgregory.net/rapid"
)

type C14Item struct {
	Kind    string `json:"kind"` // rec | repeat | status | foreign | noise | blank | garbled | binary | long | longrec
	State   string `json:"state,omitempty"`
	Profile string `json:"profile,omitempty"`
	Dbus    bool   `json:"dbus,omitempty"`
	Name    string `json:"name,omitempty"`
	Token   string `json:"token,omitempty"`
	Of      int    `json:"of,omitempty"` // repeat: index of the repeated item
	Stamp   int    `json:"stamp,omitempty"`
	Pid     int    `json:"pid,omitempty"`
	Text    string `json:"text,omitempty"`
	Len     int    `json:"len,omitempty"`
}

type C14Case struct {
	Items  []C14Item `json:"items"`
	Format string    `json:"format"` // audit | syslog | journald
	Filter string    `json:"filter"`
}

var c14Profiles = []string{"foo", "foo.bar", "fooXbar", "foobar", "bar", "firefox", "foo//sub", "baz-qux"}
var c14Filters = []string{"", "", "foo", "foo.bar", "bar", "fire", "foo//", "nomatch", "foo.b"}
var c14NoiseNames = []string{"/etc/ld.so.cache", "/etc/ld.so.preload", "/usr/lib/libfoo.so.1", "/usr/lib64/libbar.so", "/usr/lib/locale/locale-archive",
	"/usr/share/locale/fr/LC_MESSAGES/x.mo", "/usr/share/zoneinfo/UTC", "/usr/share/locale/fr/LC_MESSAGES/a b.mo", "/usr/share/zoneinfo/Amérique/Montréal", "/dev/null", "/dev/zero", "/dev/full", "/dev/log", "/dev/random", "/dev/urandom"}
var c14Names = []string{"/opt/a", "/etc/conf", "/srv/q/r-s", "/var/x", "/media/u/f", "/boot/k",
	// next to the documented noise paths, but not on them
	"/usr/lib/firefox/libxul.so", "/usr/lib64/gcc/x/liby.so.1", "/usr/libx/foo.so", "/etc/ssl/x.so", "/usr/share/local/x",
	// names with a counterpart that the path generalisation maps to the same pattern
	"/home/alice/x", "/proc/4242/stat", "/run/user/1000/bus",
	// printf verbs: the listing must print values, not interpret them
	"/opt/My%20File%d.pdf", "/srv/100%sure"}

// c14Twin: a different name that is generalised to the same pattern. Two records that differ in
// nothing else are still two accesses: only repeats identical up to timestamp and pid may be dropped.
var c14Twin = map[string]string{"/home/alice/x": "/home/bob/x", "/proc/4242/stat": "/proc/4343/stat", "/run/user/1000/bus": "/run/user/1001/bus"}

func (it C14Item) message(items []C14Item) string {
	switch it.Kind {
	case "repeat":
		o := items[it.Of]
		o.Stamp, o.Pid = it.Stamp, it.Pid
		o.Kind = "rec"
		if items[it.Of].Kind == "longrec" {
			o.Kind = "longrec"
		}
		return o.message(items)
	case "variant":
		// the record it.Of once more, from another user: same token, same everything, but a twin
		// name (or, where the name has none, another fsuid)
		o := items[it.Of]
		o.Stamp, o.Pid = it.Stamp, it.Pid
		msg := o.message(items)
		if twin, ok := c14Twin[o.Name]; ok {
			return strings.Replace(msg, `name="`+o.Name+`"`, `name="`+twin+`"`, 1)
		}
		return strings.Replace(msg, "fsuid=0 ", "fsuid=1000 ", 1)
	case "rec", "noise", "longrec":
		name := it.Name
		if it.Kind == "longrec" {
			name = "/opt/" + strings.Repeat("y", it.Len)
		}
		if it.Dbus {
			return fmt.Sprintf(`type=USER_AVC msg=audit(17000%05d.100:%d): pid=1 uid=102 auid=4294967295 ses=4294967295 subj=unconfined msg='apparmor="%s" operation="dbus_method_call"  bus="system" path="/org/q" interface="org.q.I" member="%s" mask="send" name="org.q" pid=%d label="%s" peer_pid=%d peer_label="bar"`,
				it.Stamp, it.Stamp, it.State, it.Token, it.Pid, it.Profile, it.Pid+1)
		}
		extra := ""
		if len(it.Token)%2 == 0 { // some records carry keys outside the fixed print order
			extra = ` error=-13 capability=21 capname="sys_admin" flags="rw"`
		}
		// the kernel writes a name with a blank or a non-ASCII byte in hex, unquoted
		nameField := `name="` + name + `"`
		if kernelEnc(name) == "hex" {
			nameField = "name=" + strings.ToUpper(fmt.Sprintf("%x", name))
		}
		return fmt.Sprintf(`type=AVC msg=audit(17000%05d.100:%d): apparmor="%s" operation="open" profile="%s" %s pid=%d comm="%s" requested_mask="r" denied_mask="r" fsuid=0 ouid=0%s`,
			it.Stamp, it.Stamp, it.State, it.Profile, nameField, it.Pid, it.Token, extra)
	case "status":
		return fmt.Sprintf(`type=AVC msg=audit(17000%05d.100:%d): apparmor="STATUS" operation="profile_load" profile="unconfined" name="%s" pid=%d comm="apparmor_parser"`, it.Stamp, it.Stamp, it.Profile, it.Pid)
	case "foreign":
		return it.Text
	case "blank":
		return ""
	case "garbled":
		return it.Text
	case "binary":
		return "\x00\x01\xff\xfe apparmor \x1b[0m\x7f"
	case "long":
		return "type=SYSCALL msg=audit(1700000000.1:1): " + strings.Repeat("x", it.Len)
	}
	return ""
}

func (c C14Case) Text() string {
	var b strings.Builder
	for _, it := range c.Items {
		msg := it.message(c.Items)
		switch c.Format {
		case "audit":
			b.WriteString(msg + "\n")
		case "syslog":
			if it.Kind == "blank" {
				b.WriteString("\n")
			} else {
				b.WriteString(fmt.Sprintf("Oct  1 12:%02d:00 host kernel: [ %d.000000] audit: ", it.Stamp%60, it.Stamp) + msg + "\n")
			}
		case "journald":
			if it.Kind == "blank" {
				b.WriteString("\n")
			} else if it.Kind == "garbled" || it.Kind == "binary" {
				// an unrelated journal entry (valid JSON, as journalctl --output=json always writes)
				j, _ := json.Marshal(map[string]string{"MESSAGE": strings.ToValidUTF8(msg, "?"), "PRIORITY": "6"})
				b.WriteString(string(j) + "\n")
			} else {
				j, _ := json.Marshal(map[string]string{"MESSAGE": msg})
				b.WriteString(string(j) + "\n")
			}
		}
	}
	return b.String()
}

// expected: tokens of the records that must be shown, in input order, once.
func (c C14Case) expected() []string {
	var res []string
	seen := map[string]bool{}
	for _, it := range c.Items {
		o := it
		key := ""
		if it.Kind == "repeat" || it.Kind == "variant" {
			o = c.Items[it.Of]
		}
		if it.Kind == "variant" {
			key = "#variant"
		}
		if o.Kind != "rec" && o.Kind != "longrec" {
			continue
		}
		if !strings.HasPrefix(o.Profile, c.Filter) {
			continue
		}
		if seen[o.Token+key] {
			continue
		}
		seen[o.Token+key] = true
		res = append(res, o.Token)
	}
	return res
}

func genC14Case(t *rapid.T) C14Case {
	var c C14Case
	c.Format = pick(t, "format", []string{"audit", "audit", "syslog", "journald"})
	c.Filter = pick(t, "filter", c14Filters)
	n := rapid.IntRange(1, 40).Draw(t, "n")
	tok := 0
	allowLong := chance(t, "allowlong", 5) // very long lines are slow to process: one case in five has them
	nlong := 0
	for i := 0; i < n; i++ {
		kind := pick(t, "kind", []string{"rec", "rec", "rec", "rec", "repeat", "repeat", "variant", "status", "foreign", "noise", "blank", "garbled", "binary", "long", "longrec"})
		if kind == "long" || kind == "longrec" {
			if !allowLong || nlong >= 2 {
				kind = "foreign"
			} else {
				nlong++
			}
		}
		it := C14Item{Kind: kind, Stamp: rapid.IntRange(0, 99999).Draw(t, "stamp"), Pid: rapid.IntRange(1, 99999).Draw(t, "pid")}
		switch kind {
		case "rec", "noise", "longrec":
			it.State = pick(t, "state", []string{"DENIED", "ALLOWED", "AUDIT"})
			it.Profile = pick(t, "profile", c14Profiles)
			it.Dbus = kind == "rec" && chance(t, "dbus", 5)
			tok++
			it.Token = fmt.Sprintf("tok%dq", tok)
			if kind == "noise" {
				it.Name = pick(t, "noisename", c14NoiseNames)
			} else {
				it.Name = pick(t, "name", c14Names)
			}
			if kind == "longrec" {
				it.Len = pick2(t, "len", []int{65600, 70000})
			}
		case "repeat":
			var cands []int
			for j, o := range c.Items {
				if o.Kind == "rec" || o.Kind == "longrec" {
					cands = append(cands, j)
				}
			}
			if len(cands) == 0 {
				it.Kind = "blank"
			} else {
				it.Of = cands[rapid.IntRange(0, len(cands)-1).Draw(t, "of")]
			}
		case "variant":
			var cands []int
			for j, o := range c.Items {
				if o.Kind == "rec" && !o.Dbus {
					cands = append(cands, j)
				}
			}
			if len(cands) == 0 {
				it.Kind = "blank"
			} else {
				it.Of = cands[rapid.IntRange(0, len(cands)-1).Draw(t, "of")]
			}
		case "status":
			it.Profile = pick(t, "profile", c14Profiles)
		case "foreign":
			it.Text = pick(t, "foreign", []string{
				`type=SYSCALL msg=audit(1700000000.1:2): arch=c000003e syscall=257 success=no exit=-13 a0=ffffff9c comm="cat" exe="/usr/bin/cat" subj=foo key=(null)`,
				`type=PROCTITLE msg=audit(1700000000.1:2): proctitle=636174002F6574632F736861646F77`,
				`systemd[1]: Started apparmor.service - Load AppArmor profiles.`,
				`type=AVC msg=audit(1700000000.1:3): avc:  denied  { read } for  pid=1 comm="x" name="y" scontext=a tcontext=b tclass=file permissive=0`,
				`kernel: audit: type=1400 audit(1.1:1): apparmor="HINT" operation="x"`,
				`profile="foo" apparmor= DENIED`,
			})
		case "garbled":
			it.Text = pick(t, "garbled", []string{`apparmor="DEN`, `type=AVC msg=audit(17`, `"`, `apparmor=`, `= = = "" "`, `{"MESSAGE": "apparmor`, `apparmor="ALLOWED`})
		case "long":
			it.Len = pick2(t, "len", []int{65536, 70000, 140000})
		}
		c.Items = append(c.Items, it)
	}
	return c
}

func pick2(t *rapid.T, label string, pool []int) int {
	return pool[rapid.IntRange(0, len(pool)-1).Draw(t, label)]
}

var reTok = regexp.MustCompile(`tok[0-9]+q`)

func tokensIn(s string) []string { return reTok.FindAllString(s, -1) }

// c14Read runs the library's reader the way cmd/aa-log does.
func c14Read(c C14Case, path string) (res logs.AppArmorLogs, err error) {
	defer func() {
		if p := recover(); p != nil {
			err = fmt.Errorf("reader panicked: %v", p)
		}
	}()
	if c.Format == "journald" {
		r, err := logs.GetJournalctlLogs(path, "", true)
		if err != nil {
			return nil, fmt.Errorf("GetJournalctlLogs: %v", err)
		}
		return logs.New(r, c.Filter), nil
	}
	r, err := logs.GetAuditLogs(path)
	if err != nil {
		return nil, err
	}
	return logs.New(r, c.Filter), nil
}

func tokensOfLogs(l logs.AppArmorLogs) []string {
	var res []string
	for _, g := range l {
		found := ""
		for _, k := range []string{"comm", "member"} {
			if t := reTok.FindString(g[k]); t != "" {
				found = t
			}
		}
		if found == "" {
			found = "<no-token:" + fmt.Sprint(g) + ">"
		}
		res = append(res, found)
	}
	return res
}

func c14Oracle(c C14Case, dir string) error {
	path := filepath.Join(dir, "c14.log")
	if err := os.WriteFile(path, []byte(c.Text()), 0o644); err != nil {
		return fmt.Errorf("HARNESS: %v", err)
	}
	defer os.Remove(path)
	got, err := c14Read(c, path)
	if err != nil {
		return fmt.Errorf("%v\n%s", err, c.describe())
	}
	want, have := c.expected(), tokensOfLogs(got)
	if strings.Join(want, " ") != strings.Join(have, " ") {
		return fmt.Errorf("wrong set of events for filter %q (%s format)\n  want %v\n  got  %v\n%s", c.Filter, c.Format, want, have, c.describe())
	}
	// same output on every run: the listing is rendered repeatedly
	first := got.String()
	for i := 0; i < 4; i++ {
		if s := got.String(); s != first {
			return fmt.Errorf("the listing differs between two renderings of the same events\n--- one\n%s--- other\n%s", first, s)
		}
	}
	return nil
}

func (c C14Case) describe() string {
	var b strings.Builder
	fmt.Fprintf(&b, "--- input (%s, long lines abbreviated)\n", c.Format)
	for _, l := range strings.Split(c.Text(), "\n") {
		if len(l) > 300 {
			l = l[:150] + fmt.Sprintf("...[%d bytes]...", len(l)) + l[len(l)-60:]
		}
		b.WriteString(l + "\n")
	}
	return b.String()
}

func c14Nontrivial(c C14Case) string {
	hostileSeen, nt := false, false
	dup, rejected := false, false
	for _, it := range c.Items {
		switch it.Kind {
		case "long", "longrec", "garbled", "binary", "foreign", "blank":
			hostileSeen = true
		case "repeat", "variant":
			dup = true
		}
		o := it
		if it.Kind == "repeat" || it.Kind == "variant" {
			o = c.Items[it.Of]
		}
		if (o.Kind == "rec" || o.Kind == "longrec") && strings.HasPrefix(o.Profile, c.Filter) && hostileSeen {
			nt = true
		}
		if o.Kind == "rec" && !strings.HasPrefix(o.Profile, c.Filter) {
			rejected = true
		}
	}
	if nt || dup || rejected {
		var b strings.Builder
		fmt.Fprintf(&b, "%s|%s", c.Format, c.Filter)
		for _, it := range c.Items {
			fmt.Fprintf(&b, "|%s:%s:%s:%d", it.Kind, it.Profile, it.Name, it.Of)
		}
		return b.String()
	}
	return ""
}

func TestC14_Select(t *testing.T) {
	ev := NewEv(t, "C14", "select", "log files of 1-40 lines mixing AppArmor records (ALLOWED/DENIED/AUDIT, kernel and dbus style, each with a unique token), repeats differing only in timestamp/pid, STATUS records, foreign audit/syslog lines, records on the documented noise paths, blank, garbled, binary and > 64 KiB lines (foreign and records), in audit.log, syslog and journald-JSON framing, with no filter, prefix filters and filters containing '.'; oracle: reference model of the documented selection (token sequence: nothing lost, nothing invented, input order, once) against logs.GetAuditLogs/GetJournalctlLogs + logs.New, and the listing rendered 5 times must be byte-identical. Non-trivial: an expected record after a hostile line, a duplicate, or a record rejected by the filter; distinct by structure")
	dir := t.TempDir()
	rapid.Check(t, func(t *rapid.T) {
		c := genC14Case(t)
		ev.Case(c14Nontrivial(c), "format:"+c.Format)
		ev.Sample(map[string]any{"format": c.Format, "filter": c.Filter, "items": len(c.Items), "expected": c.expected()})
		if err := c14Oracle(c, dir); err != nil {
			if Explore(firstLine(err), err) {
				return
			}
			t.Fatalf("%s", ev.Fail(c, "", "%v", err))
		}
	})
	ExploreReport(t)
}

// TestC14_Binary drives the real aa-log binary built from the current tree.
func TestC14_Binary(t *testing.T) {
	bin := filepath.Join(os.Getenv("VERIF_BIN"), "aa-log")
	if _, err := os.Stat(bin); err != nil {
		t.Fatalf("INFRA: aa-log binary not built: %v", err)
	}
	ev := NewEv(t, "C14", "binary", "the real aa-log binary on generated log files: `aa-log -f F [-s] [-R] [filter]` must exit 0 and print the expected token sequence; `aa-log -f F [-s] -r` (rules) and the default listing must give byte-identical output on two runs. Same generator and model as 'select'")
	dir := t.TempDir()
	rapid.Check(t, func(t *rapid.T) {
		c := genC14Case(t)
		mode := pick(t, "mode", []string{"list", "raw", "rules"})
		path := filepath.Join(dir, "bin.log")
		if err := os.WriteFile(path, []byte(c.Text()), 0o644); err != nil {
			t.Fatalf("HARNESS: %v", err)
		}
		args := []string{"-f", path}
		if c.Format == "journald" {
			args = append(args, "-s")
		}
		switch mode {
		case "raw":
			args = append(args, "-R")
		case "rules":
			args = append(args, "-r")
		}
		if c.Filter != "" {
			args = append(args, c.Filter)
		}
		run := func() (string, error) {
			cmd := exec.Command(bin, args...)
			out, err := cmd.CombinedOutput()
			return string(out), err
		}
		out1, err1 := run()
		out2, err2 := run()
		ev.Case(c14Nontrivial(c), "mode:"+mode, "format:"+c.Format)
		ev.Sample(map[string]any{"args": args[2:], "format": c.Format, "expected": c.expected()})
		var oerr error
		switch {
		case err1 != nil || err2 != nil:
			oerr = fmt.Errorf("aa-log %v exits with %v / %v\n--- output\n%s\n%s", args[2:], err1, err2, abbreviate(out1), c.describe())
		case out1 != out2:
			oerr = fmt.Errorf("aa-log %v prints different output on two runs\n--- first\n%s--- second\n%s", args[2:], abbreviate(out1), abbreviate(out2))
		case mode != "rules":
			want, have := c.expected(), tokensIn(out1)
			if strings.Join(want, " ") != strings.Join(have, " ") {
				oerr = fmt.Errorf("aa-log %v shows the wrong events\n  want %v\n  got  %v\n%s", args[2:], want, have, c.describe())
			}
			// the values are printed as they are
			if oerr == nil {
				plain := stripANSI(out1)
				exp := map[string]bool{}
				for _, tk := range want {
					exp[tk] = true
				}
				for _, it := range c.Items {
					if it.Kind == "rec" && !it.Dbus && exp[it.Token] && strings.Contains(it.Name, "%") && !strings.Contains(plain, it.Name) {
						oerr = fmt.Errorf("aa-log %v does not print the name %q of a reported record as it is\n--- output\n%s", args[2:], it.Name, abbreviate(plain))
					}
				}
			}
		}
		if oerr != nil {
			if Explore(mode+": "+firstLine(oerr), oerr) {
				return
			}
			t.Fatalf("%s", ev.Fail(map[string]any{"case": c, "mode": mode}, "", "%v", oerr))
		}
	})
	ExploreReport(t)
}

func abbreviate(s string) string {
	if len(s) > 3000 {
		return s[:1500] + fmt.Sprintf("\n...[%d bytes]...\n", len(s)) + s[len(s)-500:]
	}
	return s
}

func TestC14_Replay(t *testing.T) {
	path := os.Getenv("VERIF_REPLAY")
	if path == "" {
		t.Skip("no VERIF_REPLAY")
	}
	rf, err := LoadReplay(path, nil)
	if err != nil {
		t.Fatal(err)
	}
	ev := NewEv(t, "C14", "replay", "replay of one saved case")
	ev.Case("replay")
	var c C14Case
	if rf.Sub == "binary" {
		var w struct {
			Case C14Case `json:"case"`
		}
		json.Unmarshal(rf.Case, &w)
		c = w.Case
	} else {
		json.Unmarshal(rf.Case, &c)
	}
	if oerr := c14Oracle(c, t.TempDir()); oerr != nil {
		ev.Violate(json.RawMessage(rf.Case), "", "%v", oerr)
		t.Fatalf("%v", oerr)
	}
}
