package harness

// C19 — every shipped profile honours the layout contract the build and users rely on.

import (
	"fmt"
	"os"
	"path/filepath"
	"regexp"
	"sort"
	"strings"
	"testing"

	"pgregory.net/rapid"
)

type layoutFile struct {
	Rel  string // path relative to the repository root
	Kind string // profile | abstraction
	Text string
}

var (
	reAbi40      = regexp.MustCompile(`(?m)^ *abi <abi/4\.0>,`)
	reHeaderLine = regexp.MustCompile(`(?m)^profile\s+(\S+)([^\n]*)\{\s*$`)
	reSubProfile = regexp.MustCompile(`(?m)^ +profile\s+(\S+)[^\n]*\{\s*$`)
	reExecDef    = regexp.MustCompile(`(?m)^@\{exec_path\}\s*=`) // a definition: an append alone defines nothing
)

// layoutViolations is the independent scanner: it returns the clauses of the
// contract that a file breaks (empty = conforming).
func layoutViolations(f layoutFile) []string {
	var v []string
	name := filepath.Base(f.Rel)
	if !reAbi40.MatchString(f.Text) {
		v = append(v, "no 'abi <abi/4.0>,' declaration")
	}
	hasInclude := func(inc string) bool {
		re := regexp.MustCompile(`(?m)^ +` + regexp.QuoteMeta(inc) + `$`)
		return re.MatchString(f.Text)
	}
	if f.Kind == "abstraction" {
		root := strings.TrimPrefix(filepath.Dir(f.Rel), "apparmor.d/abstractions")
		root = strings.TrimPrefix(root, "/")
		if root != "" {
			root += "/"
		}
		inc := "include if exists <abstractions/" + root + name + ".d>"
		if !hasInclude(inc) {
			v = append(v, "abstraction does not include its own directory: '"+inc+"'")
		}
		return v
	}
	name = strings.TrimSuffix(name, ".apparmor.d")
	// top-level profile named after the file
	var header []string
	for _, m := range reHeaderLine.FindAllStringSubmatch(f.Text, -1) {
		if m[1] == name {
			header = m
		}
	}
	if header == nil {
		v = append(v, "no top-level 'profile "+name+"'")
	} else {
		// attachment: what stands between the name and flags=/xattrs=/{
		rest := strings.TrimSpace(header[2])
		var att []string
		for _, tok := range strings.Fields(rest) {
			if strings.HasPrefix(tok, "flags=") || strings.HasPrefix(tok, "xattrs=") {
				break
			}
			att = append(att, tok)
		}
		if len(att) > 0 {
			if len(att) != 1 || att[0] != "@{exec_path}" {
				v = append(v, fmt.Sprintf("attachment %q is not the @{exec_path} variable", strings.Join(att, " ")))
			} else {
				pre := f.Text[:strings.Index(f.Text, header[0])]
				if !reExecDef.MatchString(pre) {
					v = append(v, "@{exec_path} is not defined in the file's own preamble")
				}
			}
		}
	}
	if !hasInclude("include if exists <local/" + name + ">") {
		v = append(v, "no 'include if exists <local/"+name+">'")
	}
	// block-aware: the include of a sub-profile must stand inside that sub-profile's
	// own block (between its header and the closing brace at the header's indentation)
	lines := strings.Split(f.Text, "\n")
	for i, l := range lines {
		m := reSubProfile.FindStringSubmatch(l)
		if m == nil {
			continue
		}
		indent := l[:len(l)-len(strings.TrimLeft(l, " "))]
		inc := indent + "  include if exists <local/" + name + "_" + m[1] + ">"
		found := false
		for j := i + 1; j < len(lines); j++ {
			if lines[j] == indent+"}" {
				break
			}
			if strings.TrimSpace(lines[j]) == strings.TrimSpace(inc) {
				found = true
			}
		}
		if !found {
			v = append(v, "sub-profile "+m[1]+": no '"+strings.TrimSpace(inc)+"' inside its block")
		}
	}
	// ... and the profile's own include inside the main block, not in a sub-profile
	if header != nil {
		depthOK := false
		inMain, depth := false, 0
		for _, l := range lines {
			t := strings.TrimSpace(l)
			if !inMain {
				if strings.HasPrefix(l, "profile "+name+" ") || l == "profile "+name+"{" {
					inMain, depth = true, 1
				}
				continue
			}
			if strings.HasSuffix(t, "{") && !strings.HasPrefix(t, "#") {
				depth++
			} else if t == "}" {
				depth--
				if depth == 0 {
					break
				}
			} else if depth == 1 && t == "include if exists <local/"+name+">" {
				depthOK = true
			}
		}
		if hasInclude("include if exists <local/"+name+">") && !depthOK {
			v = append(v, "'include if exists <local/"+name+">' is not inside the main profile block")
		}
	}
	return v
}

func shippedLayoutFiles() ([]layoutFile, error) {
	root := repoRoot()
	var res []layoutFile
	add := func(pattern, kind string) error {
		dirs, _ := filepath.Glob(filepath.Join(root, pattern))
		for _, d := range dirs {
			entries, err := os.ReadDir(d)
			if err != nil {
				continue
			}
			for _, e := range entries {
				if e.IsDir() || e.Name() == "README.md" {
					continue
				}
				p := filepath.Join(d, e.Name())
				data, err := os.ReadFile(p)
				if err != nil {
					return err
				}
				rel, _ := filepath.Rel(root, p)
				res = append(res, layoutFile{Rel: rel, Kind: kind, Text: string(data)})
			}
		}
		return nil
	}
	if err := add("apparmor.d/groups/*", "profile"); err != nil {
		return nil, err
	}
	if err := add("apparmor.d/profiles-*-*", "profile"); err != nil {
		return nil, err
	}
	// all abstractions: every directory below abstractions/ except the '<name>.d' drop-in
	// directories (those extend upstream abstractions, their files are not abstractions)
	var absDirs []string
	filepath.Walk(filepath.Join(root, "apparmor.d/abstractions"), func(p string, info os.FileInfo, err error) error {
		if err != nil || !info.IsDir() {
			return nil
		}
		if strings.HasSuffix(info.Name(), ".d") {
			return filepath.SkipDir
		}
		rel, _ := filepath.Rel(root, p)
		absDirs = append(absDirs, rel)
		return nil
	})
	for _, d := range absDirs {
		if err := add(d, "abstraction"); err != nil {
			return nil, err
		}
	}
	sort.Slice(res, func(i, j int) bool { return res[i].Rel < res[j].Rel })
	return res, nil
}

func duplicateBaseNames(files []layoutFile) []string {
	seen := map[string]string{}
	var dups []string
	for _, f := range files {
		if f.Kind != "profile" {
			continue
		}
		b := filepath.Base(f.Rel)
		if o, ok := seen[b]; ok {
			dups = append(dups, fmt.Sprintf("%s and %s", o, f.Rel))
		}
		seen[b] = f.Rel
	}
	return dups
}

func TestC19_Shipped(t *testing.T) {
	ev := NewEv(t, "C19", "shipped", "every file under apparmor.d/groups/*/, apparmor.d/profiles-*-*/ and every abstraction directory (all directories below abstractions/ but the '<name>.d' drop-in directories), enumerated completely; oracle: independent scanner of the layout contract (abi 4.0, profile named after the file, attachment absent or @{exec_path} defined in the own preamble, local include for the profile and each sub-profile, abstraction includes its own .d directory, unique base names). Non-trivial: a profile file with an attachment or a sub-profile; distinct by path")
	ev.Exhaustive = true
	files, err := shippedLayoutFiles()
	if err != nil || len(files) < 100 {
		t.Fatalf("INFRA: cannot enumerate the shipped tree: %v (%d files)", err, len(files))
	}
	nprof, nabs := 0, 0
	for _, f := range files {
		key := ""
		if f.Kind == "profile" {
			nprof++
			if strings.Contains(f.Text, "@{exec_path}") || reSubProfile.MatchString(f.Text) {
				key = f.Rel
			}
		} else {
			nabs++
			key = f.Rel
		}
		ev.Case(key, "kind:"+f.Kind)
		for _, v := range layoutViolations(f) {
			k := "layout:" + f.Rel
			if IsKnown("C19", k) {
				ev.KnownFinding(k, v)
				continue
			}
			ev.Violate(map[string]string{"file": f.Rel, "clause": v}, k, "%s: %s", f.Rel, v)
			t.Errorf("%s: %s", f.Rel, v)
		}
	}
	for _, d := range duplicateBaseNames(files) {
		ev.Violate(map[string]string{"duplicate": d}, "dup:"+d, "base name used twice: %s", d)
		t.Errorf("base name used twice: %s", d)
	}
	ev.Sample(map[string]any{"profiles": nprof, "abstractions": nabs, "first": files[0].Rel, "last": files[len(files)-1].Rel})
	ev.Note("%d profile files, %d abstractions", nprof, nabs)
}

// TestC19_Scanner keeps the scanner honest (metamorphic): every conforming
// shipped file must be accepted, and each generated contract-breaking edit of
// it must be flagged.
func TestC19_Scanner(t *testing.T) {
	ev := NewEv(t, "C19", "scanner", "scanner validation: rapid picks a conforming shipped profile file and one contract-breaking edit (drop / rename the local include, rename the profile, change the abi, make the attachment literal, drop the @{exec_path} definition, drop a sub-profile's local include, copy the file into another group); the scanner must flag the edited file and accept the original. Non-trivial: every case; distinct by file + edit")
	files, err := shippedLayoutFiles()
	if err != nil {
		t.Fatalf("INFRA: %v", err)
	}
	var conforming []layoutFile
	for _, f := range files {
		if f.Kind == "profile" && len(layoutViolations(f)) == 0 {
			conforming = append(conforming, f)
		}
	}
	if len(conforming) < 50 {
		t.Fatalf("INFRA: only %d conforming profile files", len(conforming))
	}
	rapid.Check(t, func(t *rapid.T) {
		f := conforming[rapid.IntRange(0, len(conforming)-1).Draw(t, "file")]
		name := strings.TrimSuffix(filepath.Base(f.Rel), ".apparmor.d")
		edit := pick(t, "edit", []string{"drop-local", "rename-local", "rename-profile", "abi", "literal-attachment", "drop-execdef", "sub-local", "sub-local-moved", "duplicate"})
		m := f
		applicable := true
		switch edit {
		case "drop-local":
			m.Text = strings.Replace(f.Text, "include if exists <local/"+name+">", "", 1)
		case "rename-local":
			m.Text = strings.Replace(f.Text, "include if exists <local/"+name+">", "include if exists <local/"+name+"x>", 1)
		case "rename-profile":
			m.Text = strings.Replace(f.Text, "\nprofile "+name+" ", "\nprofile "+name+"-renamed ", 1)
		case "abi":
			m.Text = strings.Replace(f.Text, "abi <abi/4.0>,", "abi <abi/3.0>,", 1)
		case "literal-attachment":
			applicable = strings.Contains(f.Text, "\nprofile "+name+" @{exec_path}")
			m.Text = strings.Replace(f.Text, "\nprofile "+name+" @{exec_path}", "\nprofile "+name+" /usr/bin/"+name, 1)
		case "drop-execdef":
			applicable = strings.Contains(f.Text, "\nprofile "+name+" @{exec_path}")
			m.Text = regexp.MustCompile(`(?m)^@\{exec_path\}[^\n]*\n`).ReplaceAllString(f.Text, "")
		case "sub-local":
			sub := reSubProfile.FindStringSubmatch(f.Text)
			applicable = sub != nil
			if sub != nil {
				m.Text = strings.Replace(f.Text, "include if exists <local/"+name+"_"+sub[1]+">", "", 1)
			}
		case "sub-local-moved":
			// the sub-profile's include is moved next to the main one, outside its block
			sub := reSubProfile.FindStringSubmatch(f.Text)
			applicable = sub != nil
			if sub != nil {
				inc := "include if exists <local/" + name + "_" + sub[1] + ">"
				without := regexp.MustCompile(`(?m)^ +`+regexp.QuoteMeta(inc)+`\n`).ReplaceAllString(f.Text, "")
				m.Text = strings.Replace(without, "  include if exists <local/"+name+">", "  "+inc+"\n  include if exists <local/"+name+">", 1)
			}
		case "duplicate":
			other := layoutFile{Rel: "apparmor.d/groups/verif-other/" + filepath.Base(f.Rel), Kind: "profile", Text: f.Text}
			if len(duplicateBaseNames([]layoutFile{f, other})) != 1 {
				t.Fatalf("%s", ev.Fail(map[string]string{"file": f.Rel, "edit": edit}, "", "scanner misses a duplicated base name for %s", f.Rel))
			}
			ev.Case(f.Rel+"|"+edit, "edit:"+edit)
			return
		}
		if !applicable || m.Text == f.Text {
			ev.Case("", "edit-not-applicable")
			return
		}
		ev.Case(f.Rel+"|"+edit, "edit:"+edit)
		ev.Sample(map[string]string{"file": f.Rel, "edit": edit})
		if len(layoutViolations(m)) == 0 {
			t.Fatalf("%s", ev.Fail(map[string]string{"file": f.Rel, "edit": edit}, "", "scanner accepts %s after the edit %q", f.Rel, edit))
		}
	})
}

func TestC19_Replay(t *testing.T) {
	path := os.Getenv("VERIF_REPLAY")
	if path == "" {
		t.Skip("no VERIF_REPLAY")
	}
	var c map[string]string
	if _, err := LoadReplay(path, &c); err != nil {
		t.Fatal(err)
	}
	ev := NewEv(t, "C19", "replay", "replay of one saved case")
	ev.Case("replay")
	files, err := shippedLayoutFiles()
	if err != nil {
		t.Fatalf("INFRA: %v", err)
	}
	for _, f := range files {
		if f.Rel == c["file"] {
			for _, v := range layoutViolations(f) {
				ev.Violate(c, "", "%s: %s", f.Rel, v)
				t.Errorf("%s: %s", f.Rel, v)
			}
		}
	}
	for _, d := range duplicateBaseNames(files) {
		ev.Violate(c, "", "base name used twice: %s", d)
		t.Errorf("base name used twice: %s", d)
	}
}
