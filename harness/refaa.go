package harness

// refaa.go: the reference-parser toolkit. apparmor_parser 3.0.8 (-Q -K: no
// kernel, no cache) is the "reference AppArmor parser" of the properties.
// The toolkit wraps it, reads its compiled policy blobs, interprets the DFAs
// exactly like the kernel's aa_dfa_match, and decides equivalence of two
// automata by a product walk that returns a shortest distinguishing string.

import (
	"bytes"
	"context"
	"encoding/binary"
	"errors"
	"fmt"
	"os"
	"os/exec"
	"path/filepath"
	"regexp"
	"runtime"
	"sort"
	"strings"
	"sync/atomic"
	"syscall"
	"time"
)

const refParser = "/usr/sbin/apparmor_parser"
const refFeatures = "/etc/apparmor.d/abi/3.0"

// Ref describes how the reference parser is invoked.
type Ref struct {
	Base     string        // -b: base directory for includes (default /etc/apparmor.d)
	Includes []string      // -I: extra include search dirs, in priority order
	Features bool          // -M abi/3.0: compile mount/dbus/signal/ptrace/unix rules too
	Timeout  time.Duration // budget for one run (0: refTimeout)
}

var refSeq int64

func refScratch() string {
	d := os.Getenv("VERIF_SCRATCH")
	if d == "" {
		d = os.TempDir()
	}
	return d
}

func (r Ref) args(extra ...string) []string {
	a := []string{"-Q", "-K", "-q"}
	if r.Base != "" {
		a = append(a, "-b", r.Base)
	}
	for _, i := range r.Includes {
		a = append(a, "-I", i)
	}
	if r.Features {
		a = append(a, "-M", refFeatures)
	}
	return append(a, extra...)
}

// run writes text to a scratch file and runs the parser on it.
func (r Ref) run(text string, extra ...string) (stdout, stderr []byte, err error) {
	n := atomic.AddInt64(&refSeq, 1)
	path := filepath.Join(refScratch(), fmt.Sprintf("ref-%d-%d.aa", os.Getpid(), n))
	if err := os.WriteFile(path, []byte(text), 0o644); err != nil {
		return nil, nil, err
	}
	defer os.Remove(path)
	return r.runFile(path, extra...)
}

// ErrRefTimeout: the reference parser did not finish in time (inconclusive).
var ErrRefTimeout = errors.New("reference parser timed out")

var refTimeout = 10 * time.Second

// effectiveTimeout: the budget for one run of the reference parser. The base budget exists
// because the parser hangs on a few valid generated preambles; on a machine that is
// oversubscribed (other checks, builds) it is stretched by the load factor so that slowness
// is not mistaken for a hang. A timeout is only ever reported as inconclusive.
func (r Ref) effectiveTimeout() time.Duration {
	d := refTimeout
	if r.Timeout > 0 {
		d = r.Timeout
	}
	if data, err := os.ReadFile("/proc/loadavg"); err == nil {
		var l1 float64
		fmt.Sscanf(string(data), "%g", &l1)
		if f := l1 / float64(runtime.NumCPU()); f > 1 {
			if f > 8 {
				f = 8
			}
			d = time.Duration(float64(d) * f)
		}
	}
	return d
}

func (r Ref) runFile(path string, extra ...string) (stdout, stderr []byte, err error) {
	ctx, cancel := context.WithTimeout(context.Background(), r.effectiveTimeout())
	defer cancel()
	cmd := exec.CommandContext(ctx, refParser, append(r.args(extra...), path)...)
	// the parser forks workers that inherit the pipes: kill the whole group
	cmd.SysProcAttr = &syscall.SysProcAttr{Setpgid: true}
	cmd.Cancel = func() error {
		if cmd.Process != nil {
			_ = syscall.Kill(-cmd.Process.Pid, syscall.SIGKILL)
		}
		return nil
	}
	cmd.WaitDelay = 2 * time.Second
	// output goes to files, not pipes: workers forked by the parser may keep a
	// pipe open after the parser itself has exited
	n := atomic.AddInt64(&refSeq, 1)
	outPath := filepath.Join(refScratch(), fmt.Sprintf("refout-%d-%d", os.Getpid(), n))
	errPath := outPath + ".err"
	fo, e1 := os.Create(outPath)
	fe, e2 := os.Create(errPath)
	if e1 != nil || e2 != nil {
		return nil, nil, fmt.Errorf("scratch: %v %v", e1, e2)
	}
	defer os.Remove(outPath)
	defer os.Remove(errPath)
	cmd.Stdout = fo
	cmd.Stderr = fe
	err = cmd.Run()
	fo.Close()
	fe.Close()
	var so, se bytes.Buffer
	if d, rerr := os.ReadFile(outPath); rerr == nil {
		so.Write(d)
	}
	if d, rerr := os.ReadFile(errPath); rerr == nil {
		se.Write(d)
	}
	if ctx.Err() != nil {
		if os.Getenv("VERIF_DEBUG") != "" {
			data, _ := os.ReadFile(path)
			fmt.Fprintf(os.Stderr, "REF TIMEOUT on:\n%s\n", data)
		}
		return nil, nil, ErrRefTimeout
	}
	return so.Bytes(), se.Bytes(), err
}

// ErrRefInfra marks failures of the reference tool itself (missing binary...).
var ErrRefInfra = errors.New("reference parser unavailable")

func refAvailable() error {
	if _, err := os.Stat(refParser); err != nil {
		return ErrRefInfra
	}
	return nil
}

// Accepts reports whether the reference parser accepts the policy text.
func (r Ref) Accepts(text string) (bool, string) {
	_, se, err := r.run(text, "-d")
	if err != nil {
		var ee *exec.ExitError
		if errors.As(err, &ee) {
			return false, strings.TrimSpace(string(se))
		}
		panic(fmt.Sprintf("reference parser could not be run: %v", err))
	}
	return true, ""
}

// AcceptsFile is Accepts for a file on disk.
func (r Ref) AcceptsFile(path string, full bool) (bool, string) {
	if r.Timeout == 0 {
		r.Timeout = 90 * time.Second // shipped / built files: no hang is known, large profiles take seconds
	}
	extra := []string{"-d"}
	if full {
		extra = nil // -Q alone: everything (rule merging, DFA construction) except the kernel load
	}
	so, se, err := r.runFile(path, extra...)
	if err == ErrRefTimeout {
		so, se, err = r.runFile(path, extra...) // once more: the machine may have been busy
	}
	if err != nil {
		var ee *exec.ExitError
		if errors.As(err, &ee) {
			msg := strings.TrimSpace(string(se))
			if msg == "" {
				msg = strings.TrimSpace(string(so))
			}
			return false, msg
		}
		panic(fmt.Sprintf("reference parser could not be run: %v", err))
	}
	return true, ""
}

var reExpanded = regexp.MustCompile(`(?m)^@(\S+) = (.*)$`)
var reQuotedVal = regexp.MustCompile(`"((?:[^"\\]|\\.)*)"`)

// Expand returns the reference parser's own expansion of every variable
// defined by the text (and its includes).
func (r Ref) Expand(text string) (map[string][]string, error) {
	so, se, err := r.run(text, "-D", "expanded-variables")
	if err == ErrRefTimeout {
		return nil, err
	}
	if err != nil {
		return nil, fmt.Errorf("%v: %s", err, strings.TrimSpace(string(se)))
	}
	res := map[string][]string{}
	for _, m := range reExpanded.FindAllStringSubmatch(string(so)+"\n"+string(se), -1) {
		var vals []string
		for _, q := range reQuotedVal.FindAllStringSubmatch(m[2], -1) {
			vals = append(vals, q[1])
		}
		res[m[1]] = vals
	}
	return res, nil
}

// RejectsVariables reports whether the reference parser refuses the variable
// definitions of the text: a parse error, or one of its expansion diagnostics
// (it expands lazily, so -D expanded-variables is used to force expansion).
func (r Ref) RejectsVariables(text string) (bool, string) {
	so, se, err := r.run(text, "-D", "expanded-variables")
	out := string(so) + "\n" + string(se)
	if err != nil {
		return true, strings.TrimSpace(out)
	}
	for _, marker := range []string{"referenced recursively", "references undefined variable"} {
		if strings.Contains(out, marker) {
			return true, strings.TrimSpace(out)
		}
	}
	return false, ""
}

// Structure returns the -d dump ("Debugging built structures").
func (r Ref) Structure(text string) (string, error) {
	so, se, err := r.run(text, "-d")
	if err == ErrRefTimeout {
		return "", err
	}
	if err != nil {
		return "", fmt.Errorf("%v: %s", err, strings.TrimSpace(string(se)))
	}
	return string(so), nil
}

// Compile returns the binary policy of the text.
func (r Ref) Compile(text string) ([]byte, error) {
	so, se, err := r.run(text, "-S", "-O", "no-diff-encode")
	if err == ErrRefTimeout {
		return nil, err
	}
	if err != nil {
		return nil, fmt.Errorf("%v: %s", err, strings.TrimSpace(string(se)))
	}
	return so, nil
}

// ---------------------------------------------------------------------------
// policy blob (the format of security/apparmor/policy_unpack.c)

const (
	tagU8 = iota
	tagU16
	tagU32
	tagU64
	tagName
	tagString
	tagBlob
	tagStruct
	tagStructEnd
	tagList
	tagListEnd
	tagArray
	tagArrayEnd
)

// CompiledProfile is what the checks need from one profile of a blob.
type CompiledProfile struct {
	Name   string
	DFAs   []*DFA   // in blob order: with features: xmatch (if attached), policydb, file
	Paths  []string // struct path of each DFA, e.g. "profile/xmatch"
	XTable []string
	Mode   uint32
	Raw    []byte
	// Scalars: every number of the profile that is not inside an automaton, with the path of
	// the struct it stands in (flags, capability sets, rlimits ...), in blob order
	Scalars []string
}

func (p *CompiledProfile) dfaAt(suffix string) *DFA {
	for i, pa := range p.Paths {
		if strings.HasSuffix(pa, suffix) {
			return p.DFAs[i]
		}
	}
	return nil
}

// XMatch is the attachment automaton (nil when the profile has no attachment).
func (p *CompiledProfile) XMatch() *DFA { return p.dfaAt("xmatch") }

// File is the file-rule automaton.
func (p *CompiledProfile) File() *DFA { return p.dfaAt("file") }

// PolicyDB is the automaton of the non-file mediation classes.
func (p *CompiledProfile) PolicyDB() *DFA { return p.dfaAt("policydb") }

type blobReader struct {
	data []byte
	pos  int
}

func (b *blobReader) need(n int) error {
	if b.pos+n > len(b.data) {
		return fmt.Errorf("blob truncated at %d (+%d)", b.pos, n)
	}
	return nil
}

// ParseBlob splits a policy stream into its profiles.
func ParseBlob(data []byte) ([]*CompiledProfile, error) {
	b := &blobReader{data: data}
	var res []*CompiledProfile
	var cur *CompiledProfile
	var stack []string
	pendingName := ""
	seenFlags := false
	start := 0
	streamStart := 0 // a blob of several profiles is a sequence of streams, each starting with "version"
	for b.pos < len(b.data) {
		tagPos := b.pos
		tag := b.data[b.pos]
		b.pos++
		switch tag {
		case tagName:
			if err := b.need(2); err != nil {
				return nil, err
			}
			n := int(binary.LittleEndian.Uint16(b.data[b.pos:]))
			b.pos += 2
			if err := b.need(n); err != nil {
				return nil, err
			}
			pendingName = strings.TrimRight(string(b.data[b.pos:b.pos+n]), "\x00")
			b.pos += n
			if pendingName == "version" && len(stack) == 0 {
				streamStart = tagPos
			}
			continue
		case tagU8:
			if err := b.need(1); err != nil {
				return nil, err
			}
			if cur != nil {
				cur.Scalars = append(cur.Scalars, fmt.Sprintf("%s/%s=%d", strings.Join(stack, "/"), pendingName, b.data[b.pos]))
			}
			b.pos++
		case tagU16:
			if err := b.need(2); err != nil {
				return nil, err
			}
			if cur != nil {
				cur.Scalars = append(cur.Scalars, fmt.Sprintf("%s/%s=%d", strings.Join(stack, "/"), pendingName, binary.LittleEndian.Uint16(b.data[b.pos:])))
			}
			b.pos += 2
		case tagU32:
			if err := b.need(4); err != nil {
				return nil, err
			}
			if cur != nil {
				cur.Scalars = append(cur.Scalars, fmt.Sprintf("%s/%s=%d", strings.Join(stack, "/"), pendingName, binary.LittleEndian.Uint32(b.data[b.pos:])))
			}
			b.pos += 4
		case tagU64:
			if err := b.need(8); err != nil {
				return nil, err
			}
			if cur != nil {
				cur.Scalars = append(cur.Scalars, fmt.Sprintf("%s/%s=%d", strings.Join(stack, "/"), pendingName, binary.LittleEndian.Uint64(b.data[b.pos:])))
			}
			b.pos += 8
		case tagString:
			if err := b.need(2); err != nil {
				return nil, err
			}
			n := int(binary.LittleEndian.Uint16(b.data[b.pos:]))
			b.pos += 2
			if err := b.need(n); err != nil {
				return nil, err
			}
			s := strings.TrimRight(string(b.data[b.pos:b.pos+n]), "\x00")
			b.pos += n
			if cur != nil && cur.Name == "" && len(stack) == 1 && stack[0] == "profile" && pendingName == "" {
				cur.Name = s
			}
			if cur != nil && len(stack) > 0 && stack[len(stack)-1] == "xtable" {
				cur.XTable = append(cur.XTable, s)
			}
		case tagBlob:
			if err := b.need(4); err != nil {
				return nil, err
			}
			n := int(binary.LittleEndian.Uint32(b.data[b.pos:]))
			b.pos += 4
			if err := b.need(n); err != nil {
				return nil, err
			}
			if pendingName == "aadfa" && cur != nil {
				// the table set is 8-byte aligned relative to the start of its profile's stream
				off := b.pos
				pad := (8 - ((off - streamStart) % 8)) % 8
				if pad <= n {
					dfa, err := parseDFA(b.data[off+pad : off+n])
					if err != nil {
						return nil, fmt.Errorf("dfa in %s: %v", strings.Join(stack, "/"), err)
					}
					cur.DFAs = append(cur.DFAs, dfa)
					path := strings.Join(stack, "/")
					if len(stack) == 1 {
						// automata directly in the profile struct: the one before the
						// "flags" struct is the attachment (xmatch), the one after the
						// policydb struct is the file automaton
						if seenFlags {
							path += "/file"
						} else {
							path += "/xmatch"
						}
					}
					cur.Paths = append(cur.Paths, path)
				}
			}
			b.pos += n
		case tagStruct:
			name := pendingName
			if name == "" {
				name = "?"
			}
			stack = append(stack, name)
			if name == "flags" && len(stack) == 2 {
				seenFlags = true
			}
			if name == "profile" && len(stack) == 1 {
				seenFlags = false
				cur = &CompiledProfile{}
				start = b.pos
				res = append(res, cur)
			}
		case tagStructEnd:
			if len(stack) > 0 {
				if len(stack) == 1 && stack[0] == "profile" && cur != nil {
					cur.Raw = b.data[start:b.pos]
					cur = nil
				}
				stack = stack[:len(stack)-1]
			}
		case tagList, tagListEnd, tagArrayEnd:
		case tagArray:
			b.pos += 2
		default:
			return nil, fmt.Errorf("unknown tag %d at %d", tag, b.pos-1)
		}
		pendingName = ""
	}
	return res, nil
}

// ---------------------------------------------------------------------------
// DFA tables (security/apparmor/match.c)

const (
	ydAccept1 = 1
	ydBase    = 2
	ydChk     = 3
	ydDef     = 4
	ydEC      = 5
	ydAccept2 = 7
	ydNxt     = 8
)

type DFA struct {
	Accept1, Accept2 []uint32
	Base             []uint32
	Def, Nxt, Chk    []uint32
	EC               []uint32 // 256 entries, identity when the table is absent
	Flags            uint16
	XTable           []string // exec target table of the profile (file automaton only)
}

func parseDFA(d []byte) (*DFA, error) {
	if len(d) < 16 {
		return nil, fmt.Errorf("table set too short")
	}
	if binary.BigEndian.Uint32(d) != 0x1B5E783D {
		return nil, fmt.Errorf("bad magic %x", binary.BigEndian.Uint32(d))
	}
	// struct table_set_header { u32 magic; u32 hsize; u32 ssize; u16 flags; char version[]; }
	hsize := int(binary.BigEndian.Uint32(d[4:]))
	flags := binary.BigEndian.Uint16(d[12:])
	if hsize > len(d) {
		return nil, fmt.Errorf("bad header size")
	}
	dfa := &DFA{Flags: flags}
	p := hsize
	for p+12 <= len(d) {
		id := binary.BigEndian.Uint16(d[p:])
		tf := int(binary.BigEndian.Uint16(d[p+2:]))
		n := int(binary.BigEndian.Uint32(d[p+8:]))
		if tf != 1 && tf != 2 && tf != 4 {
			return nil, fmt.Errorf("bad table flags %d", tf)
		}
		body := p + 12
		if body+n*tf > len(d) {
			return nil, fmt.Errorf("table %d overruns", id)
		}
		vals := make([]uint32, n)
		for i := 0; i < n; i++ {
			switch tf {
			case 1:
				vals[i] = uint32(d[body+i])
			case 2:
				vals[i] = uint32(binary.BigEndian.Uint16(d[body+2*i:]))
			case 4:
				vals[i] = binary.BigEndian.Uint32(d[body+4*i:])
			}
		}
		switch id {
		case ydAccept1:
			dfa.Accept1 = vals
		case ydAccept2:
			dfa.Accept2 = vals
		case ydBase:
			dfa.Base = vals
		case ydChk:
			dfa.Chk = vals
		case ydDef:
			dfa.Def = vals
		case ydNxt:
			dfa.Nxt = vals
		case ydEC:
			dfa.EC = vals
		}
		size := 12 + n*tf
		size = (size + 7) &^ 7
		p += size
	}
	if dfa.Base == nil || dfa.Def == nil || dfa.Nxt == nil || dfa.Chk == nil {
		return nil, fmt.Errorf("missing tables")
	}
	if dfa.EC == nil {
		dfa.EC = make([]uint32, 256)
		for i := range dfa.EC {
			dfa.EC[i] = uint32(i)
		}
	}
	if len(dfa.EC) < 256 {
		ec := make([]uint32, 256)
		copy(ec, dfa.EC)
		dfa.EC = ec
	}
	return dfa, nil
}

const dfaStart = 1

func (d *DFA) next(state uint32, c byte) uint32 {
	if int(state) >= len(d.Base) {
		return 0
	}
	pos := (d.Base[state] & 0xffffff) + d.EC[c]
	if int(pos) < len(d.Chk) && d.Chk[pos] == state {
		return d.Nxt[pos]
	}
	return d.Def[state]
}

// Match runs the automaton over s from the start state.
func (d *DFA) Match(s []byte) uint32 {
	state := uint32(dfaStart)
	for _, c := range s {
		state = d.next(state, c)
	}
	return state
}

func (d *DFA) accept(state uint32) (uint32, uint32) {
	var a1, a2 uint32
	if int(state) < len(d.Accept1) {
		a1 = d.Accept1[state]
	}
	if int(state) < len(d.Accept2) {
		a2 = d.Accept2[state]
	}
	return a1, a2
}

// Perms returns the two accept words for s.
func (d *DFA) Perms(s string) (uint32, uint32) {
	if d == nil {
		return 0, 0 // no automaton: nothing is granted
	}
	return d.accept(d.Match([]byte(s)))
}

// file permission bits of accept1 (user half; other half is << 14)
const (
	permX    = 0x1
	permW    = 0x2
	permR    = 0x4
	permA    = 0x8
	permL    = 0x10
	permK    = 0x20
	permM    = 0x40
	permMask = 0x7f
	// exec type / index live above the basic bits in each half
	halfBits = 14
)

// symbol classes shared by two automata: bytes that both treat alike
func jointClasses(a, b *DFA) []byte {
	seen := map[[2]uint32]bool{}
	var reps []byte
	for c := 0; c < 256; c++ {
		k := [2]uint32{a.EC[c], b.EC[c]}
		if !seen[k] {
			seen[k] = true
			reps = append(reps, byte(c))
		}
	}
	return reps
}

// Distinguish walks the product of two automata from their start states and
// returns a shortest string on which the accept words (as projected by view)
// differ; ok is true when the automata are equivalent under view.
func Distinguish(a, b *DFA, view func(d *DFA, state uint32) string) (witness string, ok bool) {
	if a == nil && b == nil {
		return "", true
	}
	if a == nil || b == nil {
		// one side has no automaton: equivalent only if the other accepts nothing
		d := a
		if d == nil {
			d = b
		}
		empty := &DFA{Base: []uint32{0, 0}, Def: []uint32{0, 0}, Nxt: []uint32{0}, Chk: []uint32{0xffffffff}, EC: d.EC, Accept1: []uint32{0, 0}, Accept2: []uint32{0, 0}}
		if a == nil {
			a = empty
		} else {
			b = empty
		}
	}
	type pair struct{ s, t uint32 }
	type node struct {
		p      pair
		parent int
		c      byte
	}
	reps := jointClasses(a, b)
	start := pair{dfaStart, dfaStart}
	nodes := []node{{p: start, parent: -1}}
	seen := map[pair]bool{start: true}
	for i := 0; i < len(nodes); i++ {
		n := nodes[i]
		if view(a, n.p.s) != view(b, n.p.t) {
			// rebuild the string
			var rev []byte
			for j := i; nodes[j].parent >= 0; j = nodes[j].parent {
				rev = append(rev, nodes[j].c)
			}
			for l, r := 0, len(rev)-1; l < r; l, r = l+1, r-1 {
				rev[l], rev[r] = rev[r], rev[l]
			}
			return string(rev), false
		}
		for _, c := range reps {
			np := pair{a.next(n.p.s, c), b.next(n.p.t, c)}
			if !seen[np] {
				seen[np] = true
				nodes = append(nodes, node{p: np, parent: i, c: c})
			}
		}
		if len(nodes) > 4000000 {
			return "", true // give up: treated as inconclusive by callers that care
		}
	}
	return "", true
}

// viewAccepting: does the state accept anything at all (attachment automata).
func viewAccepting(d *DFA, s uint32) string {
	a1, _ := d.accept(s)
	if a1 != 0 {
		return "1"
	}
	return "0"
}

// viewRaw: both accept words verbatim.
func viewRaw(d *DFA, s uint32) string {
	a1, a2 := d.accept(s)
	return fmt.Sprintf("%x/%x", a1, a2)
}

// viewMeaning: the accept words as the kernel uses them, without what depends on the order of
// the rules in the text or can never be observed:
//   - an exec index >= 4 points into the profile's exec target table, whose order follows the
//     order of the rules: it is replaced by the target it names;
//   - audit bits are only consulted for permissions that are granted ('audit unix (accept
//     setopt)' sets both audit bits on every state the rule creates, two rules set one each):
//     they are masked by the allow bits of their half.
//
// Layout (include/file.h, dfa_user_* / dfa_other_*): accept1 = user(allow 0-6, x 7-9, index
// 10-13) | other << 14; accept2 = user(audit 0-6, quiet 7-13) | other << 14.
func viewMeaning(d *DFA, s uint32) string {
	a1, a2 := d.accept(s)
	half := func(h uint32) string {
		idx := (h >> 10) & 0xf
		if idx >= 4 && d.XTable != nil {
			name := fmt.Sprintf("?%d", idx-4)
			if int(idx-4) < len(d.XTable) {
				name = d.XTable[idx-4]
			}
			return fmt.Sprintf("%x->%s", h&0x3ff, name)
		}
		return fmt.Sprintf("%x", h)
	}
	ua, oa := a1&0x7f, (a1>>14)&0x7f
	a2 &^= (0x7f &^ ua)
	a2 &^= (0x7f &^ oa) << 14
	return half(a1&0x3fff) + "|" + half((a1>>14)&0x3fff) + fmt.Sprintf("|%x/%x", a1>>28, a2)
}

// CompileOne compiles a text holding one profile and returns it.
func (r Ref) CompileOne(text string) (*CompiledProfile, error) {
	blob, err := r.Compile(text)
	if err != nil {
		return nil, err
	}
	ps, err := ParseBlob(blob)
	if err != nil {
		return nil, err
	}
	if len(ps) == 0 {
		return nil, fmt.Errorf("no profile in compiled policy")
	}
	return ps[0], nil
}

// EquivalentProfiles compares two compiled profiles: byte equality of the
// profile bodies as a fast path, else every automaton pairwise by product walk.
func EquivalentProfiles(p, q *CompiledProfile) (string, bool) {
	if bytes.Equal(stripName(p), stripName(q)) {
		return "", true
	}
	for _, which := range []string{"xmatch", "policydb", "file"} {
		a, b := p.dfaAt(which), q.dfaAt(which)
		if which == "file" {
			if a != nil {
				a.XTable = append([]string{}, p.XTable...)
			}
			if b != nil {
				b.XTable = append([]string{}, q.XTable...)
			}
		}
		if w, ok := Distinguish(a, b, viewMeaning); !ok {
			return fmt.Sprintf("%s automaton differs on %q", which, w), false
		}
	}
	// what is not in an automaton: profile flags, capability sets, rlimits
	if len(p.Scalars) != len(q.Scalars) {
		return fmt.Sprintf("the profiles hold different numbers of fields outside the automata: %v vs %v", p.Scalars, q.Scalars), false
	}
	for i := range p.Scalars {
		if p.Scalars[i] != q.Scalars[i] {
			return fmt.Sprintf("the profiles differ outside the automata: %s vs %s", p.Scalars[i], q.Scalars[i]), false
		}
	}
	return "", true
}

func stripName(p *CompiledProfile) []byte { return p.Raw }

func sortedStrings(l []string) []string {
	r := append([]string{}, l...)
	sort.Strings(r)
	return r
}

// DistinguishPaths is Distinguish restricted to strings that can be kernel
// path names: no NUL byte and no empty component ("//"). Attachments and file
// rules are only ever matched against such strings.
func DistinguishPaths(a, b *DFA, view func(d *DFA, state uint32) string) (witness string, ok bool) {
	if a == nil || b == nil {
		return Distinguish(a, b, view)
	}
	type key struct {
		s, t  uint32
		slash bool
	}
	type node struct {
		k      key
		parent int
		c      byte
	}
	start := key{dfaStart, dfaStart, false}
	nodes := []node{{k: start, parent: -1}}
	seen := map[key]bool{start: true}
	// one representative per joint class, '/' always on its own
	reps := []byte{'/'}
	cls := map[[2]uint32]bool{}
	for c := 1; c < 256; c++ {
		if c == '/' {
			continue
		}
		k := [2]uint32{a.EC[c], b.EC[c]}
		if !cls[k] {
			cls[k] = true
			reps = append(reps, byte(c))
		}
	}
	for i := 0; i < len(nodes); i++ {
		n := nodes[i]
		if view(a, n.k.s) != view(b, n.k.t) {
			var rev []byte
			for j := i; nodes[j].parent >= 0; j = nodes[j].parent {
				rev = append(rev, nodes[j].c)
			}
			for l, r := 0, len(rev)-1; l < r; l, r = l+1, r-1 {
				rev[l], rev[r] = rev[r], rev[l]
			}
			return string(rev), false
		}
		for _, c := range reps {
			if c == '/' && n.k.slash {
				continue
			}
			nk := key{a.next(n.k.s, c), b.next(n.k.t, c), c == '/'}
			if !seen[nk] {
				seen[nk] = true
				nodes = append(nodes, node{k: nk, parent: i, c: c})
			}
		}
		if len(nodes) > 4000000 {
			return "", true
		}
	}
	return "", true
}
