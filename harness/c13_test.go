package harness

// C13 — variable resolution is plain substitution and keeps the rest of the preamble.

import (
	"encoding/json"
	"fmt"
	"os"
	"regexp"
	"sort"
	"strings"
	"testing"

	"github.com/roddhjav/apparmor.d/pkg/aa"
	"pgregory.net/rapid"
)

type C13Line struct {
	Kind   string   `json:"kind"` // comment | abi | include | alias | var
	Text   string   `json:"text,omitempty"`
	Name   string   `json:"name,omitempty"`
	Define bool     `json:"define,omitempty"`
	Values []string `json:"values,omitempty"`
	Tab    bool     `json:"tab,omitempty"` // values separated by tabs
}

type C13Case struct {
	Lines       []C13Line `json:"lines"`
	Attachments []string  `json:"attachments"`
	Invalid     string    `json:"invalid,omitempty"` // "", undefined, selfref, redefine, append-first
}

func (c C13Case) Text() string {
	var b strings.Builder
	for _, l := range c.Lines {
		if l.Kind == "var" {
			op := "+="
			if l.Define {
				op = "="
			}
			sep := " "
			if l.Tab {
				sep = "\t" // values may be separated by tabs
			}
			fmt.Fprintf(&b, "@{%s} %s%s%s\n", l.Name, op, sep, strings.Join(l.Values, sep))
		} else {
			b.WriteString(l.Text + "\n")
		}
	}
	b.WriteString("profile s")
	for _, a := range c.Attachments {
		b.WriteString(" " + a)
	}
	b.WriteString(" {\n}\n")
	return b.String()
}

// refText is the text shown to the reference parser: AppArmor takes a single
// attachment per header (the library's model allows a list), so only the first
// one is kept; variable expansion does not depend on it.
func (c C13Case) refText() string {
	d := c
	if len(d.Attachments) > 1 {
		d.Attachments = d.Attachments[:1]
	}
	return d.Text()
}

var c13Names = []string{"a", "ab", "c", "HOME", "HOMEDIRS", "exec_path", "lib", "lib_dirs"} // with names that are prefixes of other names
var c13Literals = []string{"/x", "/usr/{bin,sbin}", "/lib{,64}", "/opt", "foo", "*-linux-gnu*", "[0-9]", "/", "/y/", "bar.so", "/{,usr/}bin", "", "c++", "/srv/c=d", "a+b"}

// genC13Value draws a value of 1-4 parts. sizes holds the number of expansions
// of each referable variable; the value's own expansion count is returned and
// kept <= 48 by construction so that nested products stay small.
func genC13Value(t *rapid.T, refs []string, sizes map[string]int) (string, int) {
	n := rapid.IntRange(1, 4).Draw(t, "nparts")
	var b strings.Builder
	size := 1
	for i := 0; i < n; i++ {
		if len(refs) > 0 && chance(t, "ref", 2) {
			name := pick(t, "refname", refs)
			if size*sizes[name] <= 48 {
				b.WriteString("@{" + name + "}")
				size *= sizes[name]
				continue
			}
		}
		b.WriteString(pick(t, "lit", c13Literals))
	}
	v := b.String()
	if v == "" {
		v = "/e"
	}
	return v, size
}

func genC13Case(t *rapid.T) C13Case {
	var c C13Case
	nv := rapid.IntRange(1, 6).Draw(t, "nvars")
	names := rapid.Permutation(c13Names).Draw(t, "names")[:nv]
	// variable i may reference variables 0..i-1 (acyclic by construction)
	type vdef struct {
		name    string
		def     []string
		appends [][]string
	}
	defs := make([]vdef, nv)
	sizes := map[string]int{}
	for i := range defs {
		defs[i].name = names[i]
		total := 0
		k := rapid.IntRange(1, 3).Draw(t, "nvals")
		for j := 0; j < k; j++ {
			v, sz := genC13Value(t, names[:i], sizes)
			defs[i].def = append(defs[i].def, v)
			total += sz
		}
		na := 0
		if chance(t, "append", 2) {
			na = rapid.IntRange(1, 2).Draw(t, "nappends")
		}
		for a := 0; a < na; a++ {
			k := rapid.IntRange(1, 2).Draw(t, "nappvals")
			var vals []string
			for j := 0; j < k; j++ {
				v, sz := genC13Value(t, names[:i], sizes)
				vals = append(vals, v)
				total += sz
			}
			defs[i].appends = append(defs[i].appends, vals)
		}
		sizes[names[i]] = total
	}
	// layout: definitions in any order (forward references are legal), each
	// append somewhere after its definition, other preamble lines interleaved
	order := rapid.Permutation(intRange(nv)).Draw(t, "deforder")
	var lines []C13Line
	nlead := rapid.IntRange(0, 6).Draw(t, "nlead")
	other := func(i int) C13Line {
		switch pick(t, "okind", []string{"comment", "comment", "abi", "include", "alias"}) {
		case "abi":
			return C13Line{Kind: "abi", Text: "abi <abi/3.0>,"}
		case "include":
			return C13Line{Kind: "include", Text: fmt.Sprintf("include if exists <verif-absent/%d>", i%3)} // the same line may come twice
		case "alias":
			tail := pick(t, "aliastail", []string{"", "", " # see 1) in the notes", " # a } brace", " # (x"})
			return C13Line{Kind: "alias", Text: fmt.Sprintf("alias /al%d -> /ar%d,%s", i, i, tail)}
		}
		return C13Line{Kind: "comment", Text: "#" + pick(t, "ctext", []string{" apparmor.d", " x", "", " @{a} = /commented", " @{exec_path} += /nope"})}
	}
	for i := 0; i < nlead; i++ {
		lines = append(lines, other(i))
	}
	for _, di := range order {
		lines = append(lines, C13Line{Kind: "var", Name: defs[di].name, Define: true, Values: defs[di].def, Tab: chance(t, "tabs", 6)})
		if chance(t, "interleave", 3) {
			lines = append(lines, other(100+di))
		}
	}
	for di := range defs {
		for _, app := range defs[di].appends {
			// insert after the definition line, at a random later position
			defAt := 0
			for li, l := range lines {
				if l.Kind == "var" && l.Define && l.Name == defs[di].name {
					defAt = li
				}
			}
			at := rapid.IntRange(defAt+1, len(lines)).Draw(t, "appendat")
			nl := append([]C13Line{}, lines[:at]...)
			nl = append(nl, C13Line{Kind: "var", Name: defs[di].name, Values: app})
			lines = append(nl, lines[at:]...)
		}
	}
	// now and then a value with a long run of references to a one-valued variable (the shipped
	// tunables define @{hex}, @{word} and @{rand} with up to 64 references in one value)
	if chance(t, "manyrefs", 12) {
		k := rapid.IntRange(20, 70).Draw(t, "nrefs")
		lines = append(lines, C13Line{Kind: "var", Name: "h1", Define: true, Values: []string{"[0-9a-f]"}},
			C13Line{Kind: "var", Name: "hexrun", Define: true, Values: []string{"/" + strings.Repeat("@{h1}", k)}})
	}
	c.Lines = lines
	na := rapid.IntRange(0, 2).Draw(t, "natt")
	for i := 0; i < na; i++ {
		v, _ := genC13Value(t, names, sizes)
		c.Attachments = append(c.Attachments, v)
	}
	for i, a := range c.Attachments {
		if !strings.HasPrefix(a, "/") && !strings.HasPrefix(a, "@{") {
			c.Attachments[i] = "/" + a
		}
	}
	return c
}

// ---------------------------------------------------------------------------
// independent model: plain cartesian substitution

var reRef = regexp.MustCompile(`@\{([^{}]+)\}`)

func collapseSlashes(s string) string {
	for strings.Contains(s, "//") {
		s = strings.ReplaceAll(s, "//", "/")
	}
	return s
}

type c13Env map[string][]string

func (e c13Env) expand(v string, depth int) ([]string, error) {
	if depth > 400 { // generated preambles are acyclic: this only guards against a generator fault
		return nil, fmt.Errorf("too deep")
	}
	loc := reRef.FindStringSubmatchIndex(v)
	if loc == nil {
		return []string{v}, nil
	}
	name := v[loc[2]:loc[3]]
	vals, ok := e[name]
	if !ok {
		return nil, fmt.Errorf("undefined %s", name)
	}
	var res []string
	for _, val := range vals {
		sub, err := e.expand(v[:loc[0]]+val+v[loc[1]:], depth+1)
		if err != nil {
			return nil, err
		}
		res = append(res, sub...)
	}
	return res, nil
}

func setOf(l []string) []string {
	m := map[string]bool{}
	for _, x := range l {
		m[collapseSlashes(x)] = true
	}
	res := make([]string, 0, len(m))
	for k := range m {
		res = append(res, k)
	}
	sort.Strings(res)
	return res
}

func (c C13Case) env() c13Env {
	e := c13Env{}
	for _, l := range c.Lines {
		if l.Kind == "var" {
			e[l.Name] = append(e[l.Name], l.Values...)
		}
	}
	return e
}

type c13Result struct {
	err     error
	vars    map[string][]string
	att     []string
	others  []string // canonical non-variable preamble rules after Resolve
	before  []string // ... and before
	nvarEnt map[string]int
}

func c13Run(text string) (res c13Result, panicked error) {
	defer func() {
		if p := recover(); p != nil {
			panicked = fmt.Errorf("panic: %v", p)
		}
	}()
	resetParser()
	f := &aa.AppArmorProfileFile{}
	if _, err := f.Parse(text); err != nil {
		res.err = fmt.Errorf("parse: %w", err)
		return
	}
	for _, r := range f.Preamble {
		if r != nil && r.Kind() != aa.VARIABLE {
			res.before = append(res.before, FromRule(r).Canon(true))
		}
	}
	if err := f.Resolve(); err != nil {
		res.err = err
		return
	}
	res.vars = map[string][]string{}
	res.nvarEnt = map[string]int{}
	for _, r := range f.Preamble {
		if r == nil {
			continue
		}
		if v, ok := r.(*aa.Variable); ok {
			res.vars[v.Name] = append(res.vars[v.Name], v.Values...)
			res.nvarEnt[v.Name]++
		} else {
			res.others = append(res.others, FromRule(r).Canon(true))
		}
	}
	if len(f.Profiles) > 0 {
		res.att = f.Profiles[0].Attachments
	}
	return
}

// c13Oracle checks one case; useRef adds the reference parser's expansion.
func c13Oracle(c C13Case, useRef bool) error {
	text := c.Text()
	res, perr := c13Run(text)
	if perr != nil {
		return fmt.Errorf("Resolve crashed: %v\n--- text\n%s", perr, text)
	}
	if c.Invalid != "" {
		if c.Invalid == "append-first" {
			return nil // no-panic probe only: the statement does not list this class
		}
		if res.err == nil {
			return fmt.Errorf("invalid preamble (%s) resolved without an error\n--- text\n%s--- variables: %v", c.Invalid, text, res.vars)
		}
		if useRef {
			if rej, _ := (Ref{}).RejectsVariables(c.refText()); !rej {
				return fmt.Errorf("HARNESS: reference parser accepts a preamble generated as invalid (%s)\n%s", c.Invalid, text)
			}
		}
		return nil
	}
	if res.err != nil {
		return fmt.Errorf("valid preamble rejected: %v\n--- text\n%s", res.err, text)
	}
	env := c.env()
	for name := range env {
		want, err := env.expand("@{"+name+"}", 0)
		if err != nil {
			return fmt.Errorf("HARNESS: model cannot expand %s: %v", name, err)
		}
		got := res.vars[name]
		if strings.Join(setOf(got), "\n") != strings.Join(setOf(want), "\n") {
			return fmt.Errorf("variable @{%s} resolves to the wrong values\n--- text\n%s--- want %q\n--- got  %q", name, text, setOf(want), setOf(got))
		}
		if res.nvarEnt[name] != 1 {
			return fmt.Errorf("variable @{%s} has %d preamble entries after Resolve, want exactly 1\n--- text\n%s", name, res.nvarEnt[name], text)
		}
	}
	var wantAtt []string
	for _, a := range c.Attachments {
		x, err := env.expand(a, 0)
		if err != nil {
			return fmt.Errorf("HARNESS: model cannot expand attachment %s: %v", a, err)
		}
		wantAtt = append(wantAtt, x...)
	}
	if strings.Join(setOf(res.att), "\n") != strings.Join(setOf(wantAtt), "\n") {
		return fmt.Errorf("attachments resolve to the wrong values\n--- text\n%s--- want %q\n--- got  %q", text, setOf(wantAtt), setOf(res.att))
	}
	if strings.Join(res.before, "\n") != strings.Join(res.others, "\n") {
		return fmt.Errorf("Resolve altered the non-variable preamble rules\n--- text\n%s--- before\n%s\n--- after\n%s", text, strings.Join(res.before, "\n"), strings.Join(res.others, "\n"))
	}
	// the parsed preamble must hold every generated non-variable line
	nOther := 0
	for _, l := range c.Lines {
		if l.Kind != "var" {
			nOther++
		}
	}
	if len(res.others) != nOther {
		return fmt.Errorf("preamble has %d non-variable rules after Resolve, the text has %d\n--- text\n%s--- after\n%s", len(res.others), nOther, text, strings.Join(res.others, "\n"))
	}
	if useRef {
		ex, err := (Ref{}).Expand(c.refText())
		if err == ErrRefTimeout {
			return errInconclusive
		}
		if err != nil {
			return fmt.Errorf("HARNESS: reference parser rejects a preamble generated as valid: %v\n%s", err, text)
		}
		for name := range env {
			if strings.Join(setOf(ex[name]), "\n") != strings.Join(setOf(res.vars[name]), "\n") {
				return fmt.Errorf("variable @{%s}: library and reference parser disagree\n--- text\n%s--- reference %q\n--- library   %q", name, text, setOf(ex[name]), setOf(res.vars[name]))
			}
		}
	}
	return nil
}

func c13Nontrivial(c C13Case) string {
	nt := false
	seenOther := false
	for _, l := range c.Lines {
		if l.Kind != "var" {
			seenOther = true
		} else if !l.Define && seenOther {
			nt = true
		}
	}
	// nesting >= 2
	env := c.env()
	depth := map[string]int{}
	var d func(n string, g int) int
	d = func(n string, g int) int {
		if g > 10 {
			return g
		}
		if v, ok := depth[n]; ok {
			return v
		}
		m := 0
		for _, val := range env[n] {
			for _, ref := range reRef.FindAllStringSubmatch(val, -1) {
				if x := d(ref[1], g+1) + 1; x > m {
					m = x
				}
			}
		}
		depth[n] = m
		return m
	}
	for n := range env {
		if d(n, 0) >= 2 {
			nt = true
		}
	}
	if nt {
		return c.Text()
	}
	return ""
}

func TestC13_Resolve(t *testing.T) {
	ev := NewEv(t, "C13", "resolve", "preambles of 1-6 variables (definitions in any order, 0-2 appends each placed anywhere after the definition, values made of 1-4 literal / reference parts, references acyclic but nested to any depth, repeated and adjacent references, alternations, '//'), 0-6 leading and interleaved comment/abi/include/alias lines and 0-2 attachments; oracle: independent cartesian expander, the reference parser's -D expanded-variables on every 4th case, the non-variable preamble rules unchanged and in order, one entry per variable. Non-trivial: an append preceded by a non-variable line, or nesting >= 2; distinct by text")
	ev.Assume("values are compared as sets after collapsing '//' (the reference dump does not collapse)",
		"includes are 'include if exists' of absent files so the reference sees exactly the generated variables")
	n := 0
	rapid.Check(t, func(t *rapid.T) {
		c := genC13Case(t)
		n++
		useRef := n%4 == 0
		err := c13Oracle(c, useRef)
		cls := "noref"
		if useRef {
			cls = "ref"
		}
		ev.Case(c13Nontrivial(c), cls)
		ev.Sample(map[string]any{"text": c.Text()})
		if err == errInconclusive {
			ev.Inconclusive()
			return
		}
		if err != nil {
			if Explore(firstLine(err), err) {
				return
			}
			t.Fatalf("%s", ev.Fail(c, "", "%v", err))
		}
	})
	ExploreReport(t)
}

func TestC13_Invalid(t *testing.T) {
	ev := NewEv(t, "C13", "invalid", "a valid generated preamble with one injected fault: reference to an undefined variable, a directly self-referential value, an undefined variable in the attachment only (in half of these the preamble defines no variable at all), a second '=' of the same name (each must make Resolve return an error, not panic, and the reference parser must reject the same text), or an append placed before its definition (no-panic probe only). Non-trivial: every case; distinct by text")
	n := 0
	rapid.Check(t, func(t *rapid.T) {
		c := genC13Case(t)
		kind := pick(t, "fault", []string{"undefined", "undefined-attachment", "selfref", "redefine", "append-first"})
		c.Invalid = kind
		var varIdx []int
		for i, l := range c.Lines {
			if l.Kind == "var" && l.Name != "h1" && l.Name != "hexrun" { // a second value for h1 would mean 2^k expansions
				varIdx = append(varIdx, i)
			}
		}
		vi := varIdx[rapid.IntRange(0, len(varIdx)-1).Draw(t, "which")]
		l := &c.Lines[vi]
		l.Values = append([]string{}, l.Values...)
		switch kind {
		case "undefined":
			l.Values[0] = l.Values[0] + "/@{nope}"
		case "undefined-attachment":
			// the undefined variable only shows in the profile's attachment (the first one: the
			// reference parser is shown a single attachment)
			c.Attachments = append([]string{"/opt/@{nope}/x"}, c.Attachments...)
			if rapid.Bool().Draw(t, "novars") {
				// a preamble that defines nothing at all (comments, abi, includes only)
				var nl []C13Line
				for _, x := range c.Lines {
					if x.Kind != "var" {
						nl = append(nl, x)
					}
				}
				c.Lines = nl
			}
		case "selfref":
			l.Values[0] = "@{" + l.Name + "}/self"
		case "redefine":
			at := rapid.IntRange(0, len(c.Lines)).Draw(t, "at")
			again := []string{"/again"}
			if rapid.Bool().Draw(t, "identical") {
				// the very same definition once more is a second definition all the same
				for di, dl := range c.Lines {
					if dl.Kind == "var" && dl.Define && dl.Name == l.Name {
						again = append([]string{}, dl.Values...)
						if rapid.Bool().Draw(t, "adjacent") {
							at = di + 1
						}
						break
					}
				}
			}
			nl := append([]C13Line{}, c.Lines[:at]...)
			nl = append(nl, C13Line{Kind: "var", Name: l.Name, Define: true, Values: again})
			c.Lines = append(nl, c.Lines[at:]...)
		case "append-first":
			nl := []C13Line{{Kind: "var", Name: l.Name, Values: []string{"/early"}}}
			c.Lines = append(nl, c.Lines...)
		}
		n++
		err := c13Oracle(c, n%4 == 0)
		ev.Case(c.Text(), "fault:"+kind)
		ev.Sample(map[string]any{"text": c.Text(), "fault": kind})
		if err != nil {
			if Explore(kind+": "+firstLine(err), err) {
				return
			}
			t.Fatalf("%s", ev.Fail(c, "", "%v", err))
		}
	})
	ExploreReport(t)
}

func TestC13_Replay(t *testing.T) {
	path := os.Getenv("VERIF_REPLAY")
	if path == "" {
		t.Skip("no VERIF_REPLAY")
	}
	var c C13Case
	rf, err := LoadReplay(path, &c)
	if err != nil {
		t.Fatal(err)
	}
	ev := NewEv(t, "C13", "replay", "replay of one saved case")
	ev.Case("replay")
	oerr := c13Oracle(c, true)
	if oerr == errInconclusive {
		// the reference parser did not finish on this preamble: judge by the model alone
		ev.Inconclusive()
		oerr = c13Oracle(c, false)
	}
	if oerr != nil && oerr != errInconclusive {
		ev.Violate(json.RawMessage(rf.Case), "", "%v", oerr)
		t.Fatalf("%v", oerr)
	}
}
