package harness

import (
	"fmt"
	"os"
	"testing"
)

// TestRefaaSelf: known-answer self-test of the reference toolkit. A failure
// here is infrastructure trouble (exit 2), never a finding.
func TestRefaaSelf(t *testing.T) {
	if err := refAvailable(); err != nil {
		t.Fatalf("INFRA: %v", err)
	}
	r := Ref{Features: true}
	text := `abi <abi/3.0>,
@{exec_path} = /usr/bin/fo[ox] /usr/lib/*-linux-gnu*/foo
profile s @{exec_path} {
  /etc/foo r,
  owner /home/*/x rw,
  deny /etc/bar w,
  audit /etc/baz w,
  /usr/bin/t rPx -> tgt,
  /usr/bin/i rix,
  signal (send) set=(term) peer=foo,
}
`
	p, err := r.CompileOne(text)
	if err != nil {
		t.Fatalf("INFRA: compile: %v", err)
	}
	if os.Getenv("VERIF_DEBUG") != "" {
		fmt.Printf("name=%q paths=%v xtable=%q\n", p.Name, p.Paths, p.XTable)
	}
	if p.XMatch() == nil || p.File() == nil || p.PolicyDB() == nil {
		t.Fatalf("INFRA: expected xmatch, policydb and file automata, got %v", p.Paths)
	}
	for s, want := range map[string]bool{"/usr/bin/foo": true, "/usr/bin/fox": true, "/usr/bin/foz": false,
		"/usr/lib/x86_64-linux-gnu/foo": true, "/usr/lib/linux-gnu/foo": false, "/usr/bin/foo/": false, "": false} {
		a1, _ := p.XMatch().Perms(s)
		if (a1 != 0) != want {
			t.Errorf("INFRA: xmatch(%q) = %x, want accepting=%v", s, a1, want)
		}
	}
	type fw struct {
		user, other uint32
	}
	for s, want := range map[string]fw{
		"/etc/foo":   {permR, permR},
		"/home/u/x":  {permR | permW | permA, 0},
		"/etc/bar":   {0, 0},
		"/etc/nope":  {0, 0},
		"/etc/baz":   {permW | permA, permW | permA},
		"/usr/bin/i": {permR | permX | permM, permR | permX | permM}, // ix implies m
	} {
		a1, _ := p.File().Perms(s)
		u, o := a1&permMask, (a1>>halfBits)&permMask
		if u != want.user || o != want.other {
			t.Errorf("INFRA: file(%q) user=%x other=%x, want %x %x (raw %x)", s, u, o, want.user, want.other, a1)
		}
	}
	// equivalence: textually different, semantically equal
	q, err := r.CompileOne(`abi <abi/3.0>,
profile s /usr/{bin/fo[ox],lib/*-linux-gnu*/foo} {
  /etc/foo r,
  owner /home/*/x w,
  owner /home/*/x r,
  deny /etc/bar w,
  audit /etc/baz w,
  /usr/bin/t rPx -> tgt,
  /usr/bin/i rix,
  signal send set=term peer=foo,
}
`)
	if err != nil {
		t.Fatalf("INFRA: %v", err)
	}
	if w, ok := EquivalentProfiles(p, q); !ok {
		t.Errorf("INFRA: equal profiles reported different: %s", w)
	}
	q2, _ := r.CompileOne(`abi <abi/3.0>,
profile s /usr/{bin/fo[ox],lib/*-linux-gnu*/fo} {
  /etc/foo r,
}
`)
	if w, ok := Distinguish(p.XMatch(), q2.XMatch(), viewAccepting); ok {
		t.Errorf("INFRA: different attachments reported equivalent")
	} else if os.Getenv("VERIF_DEBUG") != "" {
		fmt.Printf("witness %q\n", w)
	}
	ex, err := Ref{}.Expand("@{a} = /x /y\n@{b} = @{a}/1 @{a}//2\n@{b} += /z{q,r}\nprofile s {}\n")
	if err != nil || fmt.Sprint(ex["b"]) != "[/x/1 /y/1 /x//2 /y//2 /z{q,r}]" {
		t.Errorf("INFRA: Expand = %v, %v", ex, err)
	}
}
