package harness

// C04 — the prepare stage conserves the policy set: nothing lost, nothing leaked.

import (
	"encoding/json"
	"fmt"
	"os"
	"path/filepath"
	"regexp"
	"sort"
	"strings"
	"sync"
	"testing"
)

// ---------------------------------------------------------------------------
// independent model of the documented prepare steps
// (docs/development/build.md, workflow.md, the statement)

type prepEntry struct {
	Source  string   // source path (relative to the source root) the bytes come from; "" for links
	Link    string   // symlink target for links
	Flags   []string // manifest flags (nil = not named by a manifest / no flags given)
	FullFix bool     // one of the two files the full-system-policy step edits
}

// readManifestLines: comment and blank filtering as documented for dists/* files.
func readManifestLines(path string) []string {
	var res []string
	for _, l := range strings.Split(readFile(path), "\n") {
		if i := strings.Index(l, "#"); i >= 0 {
			l = l[:i]
		}
		l = strings.TrimSpace(l)
		if l != "" {
			res = append(res, l)
		}
	}
	return res
}

type prepModel struct {
	Apparmord map[string]prepEntry // expected content of .build/apparmor.d (files and links)
	Systemd   map[string]string    // expected content of .build/systemd: rel -> source path
	Clashes   []string             // two source profiles collapsing onto one output name
	Applied   map[string]int       // what actually applied (for the non-triviality rule)
}

func isProfileDir(rel string) bool {
	parts := strings.Split(rel, "/")
	return (len(parts) == 3 && parts[0] == "groups") || (len(parts) == 2 && strings.HasPrefix(parts[0], "profiles-"))
}

func modelPrepare(src string, c Config) (*prepModel, error) {
	m := &prepModel{Apparmord: map[string]prepEntry{}, Systemd: map[string]string{}, Applied: map[string]int{}}
	root := filepath.Join(src, "apparmor.d")
	// 1. the source policy tree
	var files []string
	err := filepath.Walk(root, func(path string, info os.FileInfo, err error) error {
		if err != nil {
			return err
		}
		if !info.IsDir() {
			rel, _ := filepath.Rel(root, path)
			files = append(files, rel)
		}
		return nil
	})
	if err != nil {
		return nil, err
	}
	// 2. ignore lists: a path entry removes that subtree, any other entry removes
	// every profile of that base name
	removed := map[string]bool{}
	for _, name := range []string{"main", c.Dist} {
		for _, entry := range readManifestLines(filepath.Join(src, "dists", "ignore", name+".ignore")) {
			if strings.HasPrefix(entry, "apparmor.d/") {
				prefix := strings.TrimPrefix(entry, "apparmor.d/")
				n := 0
				for _, f := range files {
					if f == prefix || strings.HasPrefix(f, prefix+"/") {
						removed[f] = true
						n++
					}
				}
				if n > 0 {
					m.Applied["path-ignore"]++
				}
				continue
			}
			if strings.Contains(entry, "/") {
				continue // an entry outside the policy tree (share/...)
			}
			for _, f := range files {
				if isProfileDir(f) && filepath.Base(f) == entry && !removed[f] {
					removed[f] = true
					m.Applied["name-ignore"]++
				}
			}
		}
	}
	// 3. flattening
	owner := map[string]string{}
	for _, f := range files {
		if removed[f] {
			continue
		}
		out := f
		if isProfileDir(f) {
			out = filepath.Base(f)
		} else if strings.HasPrefix(f, "groups/") || strings.HasPrefix(f, "profiles-") {
			// deeper than one level below a group: the merge step only moves the first level
			parts := strings.Split(f, "/")
			if parts[0] == "groups" {
				out = strings.Join(parts[2:], "/")
			} else {
				out = strings.Join(parts[1:], "/")
			}
		}
		if prev, ok := owner[out]; ok {
			m.Clashes = append(m.Clashes, fmt.Sprintf("%s and %s both become %s", prev, f, out))
		}
		owner[out] = f
		m.Apparmord[out] = prepEntry{Source: filepath.Join("apparmor.d", f)}
	}
	// 4. documented configure deltas
	ver := c.Version
	if (c.Dist == "debian" || c.Dist == "whonix") && ver != "4.1" {
		overlay := filepath.Join(src, "dists", "ubuntu")
		filepath.Walk(overlay, func(path string, info os.FileInfo, err error) error {
			if err == nil && !info.IsDir() {
				rel, _ := filepath.Rel(overlay, path)
				m.Apparmord[rel] = prepEntry{Source: filepath.Join("dists", "ubuntu", rel)}
				m.Applied["configure-overlay"]++
			}
			return nil
		})
	}
	if ver == "4.1" {
		for _, f := range upstreamed41 {
			if _, ok := m.Apparmord[f]; ok {
				delete(m.Apparmord, f)
				m.Applied["configure-remove"]++
			}
		}
	}
	// 5. flags manifests (common, then the distribution's)
	for _, name := range []string{"main", c.Dist} {
		for _, line := range readManifestLines(filepath.Join(src, "dists", "flags", name+".flags")) {
			fields := strings.Fields(line)
			e, ok := m.Apparmord[fields[0]]
			if !ok || len(fields) < 2 {
				continue
			}
			e.Flags = strings.Split(fields[1], ",")
			m.Apparmord[fields[0]] = e
			m.Applied["manifest"]++
		}
	}
	// 6. overwrite list (ABI 4): rename with the package suffix + disable/ link to the upstream name
	if c.ABI == 4 {
		for _, name := range readManifestLines(filepath.Join(src, "dists", "overwrite")) {
			if e, ok := m.Apparmord[name]; ok {
				delete(m.Apparmord, name)
				m.Apparmord[name+".apparmor.d"] = e
				m.Applied["overwrite"]++
			}
			m.Apparmord["disable/"+name] = prepEntry{Link: "../" + name}
		}
	}
	// 7. systemd drop-ins, 8. full system policy
	addSystemd := func(sub string) {
		base := filepath.Join(src, "systemd", sub)
		filepath.Walk(base, func(path string, info os.FileInfo, err error) error {
			if err == nil && !info.IsDir() {
				rel, _ := filepath.Rel(base, path)
				m.Systemd[rel] = filepath.Join("systemd", sub, rel)
			}
			return nil
		})
	}
	addSystemd("default")
	if c.Full {
		fullDir := filepath.Join(root, "groups", "_full")
		entries, _ := os.ReadDir(fullDir)
		for _, e := range entries {
			if !e.IsDir() {
				m.Apparmord[e.Name()] = prepEntry{Source: filepath.Join("apparmor.d", "groups", "_full", e.Name())}
				m.Applied["full-profiles"]++
			}
		}
		for _, f := range []string{"tunables/multiarch.d/profiles", "abstractions/gstreamer"} {
			if e, ok := m.Apparmord[f]; ok {
				e.FullFix = true
				m.Apparmord[f] = e
			}
		}
		addSystemd("full")
	} else {
		addSystemd("early")
	}
	return m, nil
}

// ---------------------------------------------------------------------------

var reAnyFlags = regexp.MustCompile(`\s*flags=\([^)]*\)`)

// stripFlags deletes flags=(...) and normalises the spacing of block headers.
func stripFlags(text string) string {
	lines := strings.Split(text, "\n")
	for i, l := range lines {
		if strings.HasSuffix(strings.TrimSpace(l), "{") {
			l = reAnyFlags.ReplaceAllString(l, "")
			ind := l[:len(l)-len(strings.TrimLeft(l, " \t"))]
			body := strings.TrimSpace(strings.TrimSuffix(strings.TrimSpace(l), "{"))
			lines[i] = ind + strings.Join(strings.Fields(body), " ") + " {"
		}
	}
	return strings.Join(lines, "\n")
}

func fullFixExpected(rel, src string) string {
	switch rel {
	case "tunables/multiarch.d/profiles":
		src = strings.ReplaceAll(src, "@{p_systemd}=unconfined", "@{p_systemd}=systemd")
		return strings.ReplaceAll(src, "@{p_systemd_user}=unconfined", "@{p_systemd_user}=systemd-user")
	case "abstractions/gstreamer":
		var out []string
		for _, l := range strings.Split(src, "\n") {
			if strings.Contains(l, "gst-plugin-scanner") {
				l = ""
			}
			out = append(out, l)
		}
		return strings.Join(out, "\n")
	}
	return src
}

// comparePrepare checks the prepare-stage output of b against the model.
func comparePrepare(b *Build, src string, m *prepModel) []string {
	var problems []string
	add := func(format string, a ...any) {
		if len(problems) < 40 {
			problems = append(problems, fmt.Sprintf(format, a...))
		}
	}
	for _, c := range m.Clashes {
		add("two source profiles collapse onto one output name: %s", c)
	}
	actual := map[string]string{} // rel -> "f" | "l:<target>"
	aad := b.Apparmord()
	filepath.Walk(aad, func(path string, info os.FileInfo, err error) error {
		if err != nil || path == aad {
			return nil
		}
		rel, _ := filepath.Rel(aad, path)
		if info.Mode()&os.ModeSymlink != 0 {
			t, _ := os.Readlink(path)
			actual[rel] = "l:" + t
		} else if !info.IsDir() {
			actual[rel] = "f"
		}
		return nil
	})
	for rel, e := range m.Apparmord {
		a, ok := actual[rel]
		if !ok {
			add("missing from the output: %s (from %s)", rel, e.Source)
			continue
		}
		if e.Link != "" {
			if a != "l:"+e.Link {
				add("%s should be a link to %s, is %s", rel, e.Link, a)
			}
			continue
		}
		if a != "f" {
			add("%s should be a regular file, is %s", rel, a)
			continue
		}
		srcText := readFile(filepath.Join(src, e.Source))
		got := readFile(filepath.Join(aad, rel))
		switch {
		case e.FullFix:
			if got != fullFixExpected(rel, srcText) {
				add("%s: content is not the source with the documented full-system-policy edit", rel)
			}
		case e.Flags != nil:
			if stripFlags(got) != stripFlags(srcText) {
				add("%s: a flags manifest names it, but its content differs from the source in more than header flags", rel)
			}
			for _, h := range scanHeaders(got) {
				if flagSet(h.Flags) != flagSet(e.Flags) {
					add("%s: header %q does not carry exactly the manifest flags {%s}", rel, strings.TrimSpace(h.Line), flagSet(e.Flags))
				}
			}
		default:
			if got != srcText {
				add("%s: content differs from its source %s although no manifest names it", rel, e.Source)
			}
		}
	}
	for rel := range actual {
		if _, ok := m.Apparmord[rel]; !ok {
			add("unexpected entry in the output: %s (%s)", rel, actual[rel])
		}
	}
	// systemd drop-ins
	sysRoot := filepath.Join(b.Root(), "systemd")
	actualSys := map[string]bool{}
	for _, f := range listFiles(sysRoot) {
		actualSys[f] = true
	}
	for rel, s := range m.Systemd {
		if !actualSys[rel] {
			add("missing drop-in: systemd/%s", rel)
		} else if readFile(filepath.Join(sysRoot, rel)) != readFile(filepath.Join(src, s)) {
			add("drop-in systemd/%s differs from %s", rel, s)
		}
	}
	for rel := range actualSys {
		if _, ok := m.Systemd[rel]; !ok {
			add("unexpected drop-in: systemd/%s", rel)
		}
	}
	sort.Strings(problems)
	return problems
}

// allAV: the three pairs main.go selects plus the cross pairs reachable through
// explicit --abi / --version flags.
var allAV = []struct {
	ABI int
	Ver string
}{{3, "3.0"}, {4, "4.0"}, {4, "4.1"}, {3, "4.0"}, {3, "4.1"}, {4, "3.0"}}

func c04Configs() []Config {
	var res []Config
	for _, d := range allDists {
		for _, av := range allAV {
			for _, f := range []bool{false, true} {
				res = append(res, Config{Dist: d, ABI: av.ABI, Version: av.Ver, Full: f})
			}
		}
	}
	return res
}

func TestC04_Shipped(t *testing.T) {
	if err := haveBins(); err != nil {
		t.Fatalf("INFRA: %v", err)
	}
	ev := NewEv(t, "C04", "shipped", "the prepare stage of the real main package (binary built with -tags verif, VERIF_PREPARE_ONLY) on the shipped tree for all 60 (distribution, ABI, version, full) configurations - the three ABI/version pairs main.go selects and the three cross pairs reachable through explicit flags; the mode is irrelevant before the builders - enumerated completely in both tiers, each also started over a polluted build directory; oracle: independent model of the documented prepare steps (ignore lists, flattening, configure deltas, flags manifests, overwrite renames and disable/ links, full-system-policy installs and edits, systemd drop-ins): nothing expected is missing, nothing unexpected is present, no two sources share an output name, contents equal the source except for manifest flags and the two documented --full edits. Non-trivial: a configuration in which a by-name ignore, a path ignore, a manifest rewrite and (ABI 4) an overwrite applied; distinct by configuration + output file")
	ev.Exhaustive = true
	cfgs := c04Configs()
	var mu sync.Mutex
	parallel(len(cfgs), 8, func(i int) {
		c := cfgs[i]
		m, err := modelPrepare(repoRoot(), c)
		if err != nil {
			mu.Lock()
			t.Errorf("INFRA: %v", err)
			mu.Unlock()
			return
		}
		// stale content first: the prepare stage must start from a clean directory
		dir, err := newScratchTree(repoRoot())
		if err != nil {
			mu.Lock()
			t.Errorf("INFRA: %v", err)
			mu.Unlock()
			return
		}
		b := &Build{Dir: dir, Cfg: c}
		defer b.Clean()
		os.MkdirAll(b.Root(), 0o755)
		for n, k := range []string{"stale-profile", "junk-dir", "systemd-junk", "dangling-symlink", "hidden-file", "hidden-dir"} {
			pollute(b.Root(), k, n)
		}
		if log, err := RunPrebuild(dir, c, true); err != nil {
			mu.Lock()
			t.Errorf("INFRA: prepare %s: %v\n%s", c, err, tail(log, 800))
			mu.Unlock()
			return
		}
		problems := comparePrepare(b, repoRoot(), m)
		mu.Lock()
		defer mu.Unlock()
		nt := m.Applied["name-ignore"] > 0 && m.Applied["path-ignore"] > 0 && m.Applied["manifest"] > 0 && (c.ABI != 4 || m.Applied["overwrite"] > 0)
		for rel := range m.Apparmord {
			key := ""
			if nt {
				key = c.String() + "|" + rel
			}
			ev.Case(key)
		}
		ev.Class("cfg:" + c.String())
		ev.Sample(map[string]any{"config": c.String(), "expected_entries": len(m.Apparmord), "dropins": len(m.Systemd), "applied": m.Applied, "problems": len(problems)})
		for _, p := range problems {
			ev.Violate(map[string]any{"config": c, "problem": p}, "", "%s: %s", c, p)
			t.Errorf("%s: %s", c, p)
		}
	})
}

func TestC04_Replay(t *testing.T) {
	path := os.Getenv("VERIF_REPLAY")
	if path == "" {
		t.Skip("no VERIF_REPLAY")
	}
	var w struct {
		Config Config `json:"config"`
	}
	rf, err := LoadReplay(path, &w)
	if err != nil {
		t.Fatal(err)
	}
	ev := NewEv(t, "C04", "replay", "replay of one saved case")
	ev.Case("replay")
	m, err := modelPrepare(repoRoot(), w.Config)
	if err != nil {
		t.Fatalf("INFRA: %v", err)
	}
	b, err := BuildShipped(w.Config, true)
	defer b.Clean()
	if err != nil {
		t.Fatalf("INFRA: %v", err)
	}
	for _, p := range comparePrepare(b, repoRoot(), m) {
		ev.Violate(json.RawMessage(rf.Case), "", "%s: %s", w.Config, p)
		t.Errorf("%s: %s", w.Config, p)
	}
}
