package harness

// C17 — full-system-policy builds leave no unconfined fallback on rewritten exec rules.

import (
	"encoding/json"
	"fmt"
	"os"
	"path/filepath"
	"regexp"
	"strings"
	"sync"
	"testing"

	"github.com/roddhjav/apparmor.d/pkg/prebuild"
	"github.com/roddhjav/apparmor.d/pkg/prebuild/builder"
	"pgregory.net/rapid"
)

type fspRule struct {
	File    string // source path relative to apparmor.d/
	Path    string // path token, case-folded
	Ordinal int    // n-th rule with that path token in the file
	Line    string
}

var reFspAccess = regexp.MustCompile(`^r(PU|U)x,$`)

// ruleTokens splits a policy line into fields, cutting a trailing comment.
func ruleTokens(line string) []string {
	fields := strings.Fields(line)
	for i, f := range fields {
		if strings.HasPrefix(f, "#") {
			return fields[:i]
		}
	}
	return fields
}

// fspRulesIn finds the exec rules written as read + unconfined fallback
// without an explicit target, with an independent line tokenizer.
func fspRulesIn(rel, text string) []fspRule {
	var res []fspRule
	count := map[string]int{}
	for _, line := range strings.Split(text, "\n") {
		toks := ruleTokens(line)
		for i, tk := range toks {
			if i == 0 || !isRulePath(toks[i-1]) {
				continue
			}
			path := strings.ToLower(toks[i-1])
			if !strings.HasSuffix(tk, ",") || containsStr(toks, "->") {
				continue
			}
			// every file rule counts for the ordinal, so that built lines can be paired
			count[path]++
			if reFspAccess.MatchString(tk) {
				res = append(res, fspRule{File: rel, Path: path, Ordinal: count[path], Line: line})
			}
			break
		}
	}
	return res
}

func isRulePath(tok string) bool {
	return strings.HasPrefix(tok, "/") || strings.HasPrefix(tok, "@{") || strings.HasPrefix(tok, `"`)
}

// builtAccess returns the access token of the n-th file rule with the given
// path token in a built text ("" when there is none).
func builtAccess(text, path string, ordinal int) (string, string) {
	n := 0
	for _, line := range strings.Split(text, "\n") {
		toks := ruleTokens(line)
		for i, tk := range toks {
			if i == 0 || !isRulePath(toks[i-1]) || strings.ToLower(toks[i-1]) != path {
				continue
			}
			if !strings.HasSuffix(tk, ",") || containsStr(toks, "->") {
				continue
			}
			n++
			if n == ordinal {
				return tk, line
			}
			break
		}
	}
	return "", ""
}

func flattenRel(rel string) string {
	parts := strings.Split(rel, "/")
	if len(parts) == 3 && parts[0] == "groups" {
		return parts[2]
	}
	if len(parts) == 2 && strings.HasPrefix(parts[0], "profiles-") {
		return parts[1]
	}
	return rel
}

func sourceFspRules() ([]fspRule, error) {
	root := filepath.Join(repoRoot(), "apparmor.d")
	var res []fspRule
	err := filepath.Walk(root, func(path string, info os.FileInfo, err error) error {
		if err != nil || info.IsDir() {
			return err
		}
		rel, _ := filepath.Rel(root, path)
		res = append(res, fspRulesIn(rel, readFile(path))...)
		return nil
	})
	return res, err
}

func c17Configs() []Config {
	var full []Config
	for _, c := range PrimaryConfigs() {
		if c.Full {
			full = append(full, c)
		}
	}
	if isThorough() {
		return full // all 45
	}
	return coveringSample(full, 6, seedInt())
}

func TestC17_Shipped(t *testing.T) {
	if err := haveBins(); err != nil {
		t.Fatalf("INFRA: %v", err)
	}
	ev := NewEv(t, "C17", "shipped", "every source rule whose access token is rPUx or rUx without '->' (found by an independent line tokenizer) x --full builds of the real tree with the real binary (all 45 = 5 distributions x 3 ABI/version x 3 modes in thorough, a seeded covering sample of 6 in quick; every other build gives its options in the one-letter spelling); oracle: the same rule (same file, same case-folded path token, same ordinal) in the built file has the access token 'rpx' (case-folded), and in the normal build of the same configuration it differs from the source only in letter case. Non-trivial: every (configuration, file, rule); distinct by that triple")
	rules, err := sourceFspRules()
	if err != nil || len(rules) < 50 {
		t.Fatalf("INFRA: %d source rules found: %v", len(rules), err)
	}
	cfgs := c17Configs()
	ev.Exhaustive = isThorough()
	var mu sync.Mutex
	parallel(len(cfgs), 8, func(i int) {
		c := cfgs[i]
		c.Short = i%2 == 1 // every other build spells its options with one letter (-f -c -e -a -v)
		bf, err := BuildShipped(c, false)
		defer bf.Clean()
		if err != nil {
			mu.Lock()
			ev.Note("INFRA build %s: %v", c, err)
			t.Errorf("INFRA: %v", err)
			mu.Unlock()
			return
		}
		nc := c
		nc.Full = false
		bn, err := BuildShipped(nc, false)
		defer bn.Clean()
		if err != nil {
			mu.Lock()
			t.Errorf("INFRA: %v", err)
			mu.Unlock()
			return
		}
		texts := map[string][2]string{}
		found, absent := 0, 0
		for _, r := range rules {
			name := flattenRel(r.File)
			tx, ok := texts[name]
			if !ok {
				for _, cand := range []string{name, name + ".apparmor.d"} {
					if s := readFile(filepath.Join(bf.Apparmord(), cand)); s != "" {
						tx = [2]string{s, readFile(filepath.Join(bn.Apparmord(), cand))}
						break
					}
				}
				texts[name] = tx
			}
			if tx[0] == "" {
				absent++ // the file is not part of this build (ignored for the distribution)
				continue
			}
			acc, line := builtAccess(tx[0], r.Path, r.Ordinal)
			if acc == "" {
				absent++ // the rule is filtered out for this target (only / exclude)
				continue
			}
			found++
			key := fmt.Sprintf("%s|%s|%s#%d", c, r.File, r.Path, r.Ordinal)
			mu.Lock()
			ev.Case(key, "cfg:"+c.String())
			if strings.ToLower(acc) != "rpx," {
				ev.Violate(map[string]any{"config": c, "file": r.File, "path": r.Path, "ordinal": r.Ordinal}, "", "%s: %s: rule %q is built as %q: the unconfined fallback is still there", c, r.File, strings.TrimSpace(r.Line), strings.TrimSpace(line))
				t.Errorf("%s %s: %q built as %q", c, r.File, strings.TrimSpace(r.Line), strings.TrimSpace(line))
			}
			if tx[1] != "" {
				nacc, nline := builtAccess(tx[1], r.Path, r.Ordinal)
				if nacc != "" && !strings.EqualFold(strings.Join(ruleTokens(nline), " "), strings.Join(ruleTokens(r.Line), " ")) {
					ev.Violate(map[string]any{"config": nc, "file": r.File, "path": r.Path}, "", "%s: %s: a normal build changes the rule %q into %q", nc, r.File, strings.TrimSpace(r.Line), strings.TrimSpace(nline))
					t.Errorf("%s %s: normal build changes %q into %q", nc, r.File, strings.TrimSpace(r.Line), strings.TrimSpace(nline))
				}
			}
			mu.Unlock()
		}
		// sweep: whatever its origin (stacked or generated text included), no file
		// rule of a full build may keep a read + unconfined-fallback access without target
		leftovers := 0
		for _, f := range listFiles(bf.Apparmord()) {
			if strings.HasPrefix(f, "disable/") {
				continue
			}
			for _, line := range strings.Split(readFile(filepath.Join(bf.Apparmord(), f)), "\n") {
				toks := ruleTokens(line)
				for i, tk := range toks {
					if i > 0 && isRulePath(toks[i-1]) && reFspAccess.MatchString(strings.NewReplacer("pu", "PU", "ux", "Ux").Replace(tk)) && !containsStr(toks, "->") {
						leftovers++
						mu.Lock()
						ev.Violate(map[string]any{"config": c, "file": f, "path": strings.ToLower(toks[i-1]), "ordinal": 0}, "", "%s: built file %s still holds %q", c, f, strings.TrimSpace(line))
						t.Errorf("%s: built file %s still holds %q", c, f, strings.TrimSpace(line))
						mu.Unlock()
					}
				}
			}
		}
		mu.Lock()
		ev.Sample(map[string]any{"config": c.String(), "rules_checked": found, "rules_absent_in_this_build": absent, "leftover_fallback_rules_anywhere": leftovers})
		if found < 100 {
			ev.Note("INFRA: only %d rules found in build %s", found, c)
			t.Errorf("INFRA: only %d of %d rules located in build %s", found, len(rules), c)
		}
		mu.Unlock()
	})
	ev.Note("%d source rules, %d configurations", len(rules), len(cfgs))
}

// ---------------------------------------------------------------------------
// generated profiles through the registered builder chain, in-process

type C17Line struct {
	Text   string `json:"text"`
	Expect string `json:"expect,omitempty"` // expected case-folded access token ("" = line must only change in letter case)
}

type C17Case struct {
	Lines []C17Line `json:"lines"`
	Chain []string  `json:"chain"`
}

func (c C17Case) Text() string {
	var b strings.Builder
	b.WriteString("abi <abi/4.0>,\n\ninclude <tunables/global>\n\n@{exec_path} = @{bin}/foo\nprofile foo @{exec_path} {\n  include <abstractions/base>\n\n")
	for _, l := range c.Lines {
		b.WriteString(l.Text + "\n")
	}
	b.WriteString("\n  include if exists <local/foo>\n}\n")
	return b.String()
}

var c17mu sync.Mutex

func c17Oracle(c C17Case) error {
	c17mu.Lock()
	defer c17mu.Unlock()
	builder.Builds = nil
	builder.Register(c.Chain...)
	prebuild.ABI = 4
	in := c.Text()
	out, err := func() (s string, err error) {
		defer func() {
			if p := recover(); p != nil {
				err = fmt.Errorf("builder.Run panicked: %v", p)
			}
		}()
		return builder.Run(prebuild.RootApparmord.Join("foo"), in)
	}()
	if err != nil {
		return fmt.Errorf("builder chain %v failed: %v\n%s", c.Chain, err, in)
	}
	inL, outL := strings.Split(in, "\n"), strings.Split(out, "\n")
	if len(inL) != len(outL) {
		return fmt.Errorf("builder chain %v changed the number of lines (%d -> %d)\n--- in\n%s--- out\n%s", c.Chain, len(inL), len(outL), in, out)
	}
	off := 8 // lines before the generated ones
	for i, l := range c.Lines {
		got := outL[off+i]
		if l.Expect == "" {
			// comments are not policy: only the rule tokens are compared
			if !strings.EqualFold(strings.Join(ruleTokens(got), " "), strings.Join(ruleTokens(l.Text), " ")) {
				return fmt.Errorf("chain %v: a line that is not an rPUx/rUx rule changed beyond letter case\n  in : %q\n  out: %q", c.Chain, l.Text, got)
			}
			continue
		}
		toks, itoks := ruleTokens(got), ruleTokens(l.Text)
		if len(toks) != len(itoks) {
			return fmt.Errorf("chain %v: rule tokens changed\n  in : %q\n  out: %q", c.Chain, l.Text, got)
		}
		for j := range toks {
			want := strings.ToLower(itoks[j])
			if reFspAccess.MatchString(itoks[j]) {
				want = l.Expect
			}
			if strings.ToLower(toks[j]) != want {
				return fmt.Errorf("chain %v: exec rule not rewritten to a profile-only transition\n  in : %q\n  out: %q (token %q, want %q)", c.Chain, l.Text, got, toks[j], want)
			}
		}
	}
	return nil
}

func genC17Case(t *rapid.T) C17Case {
	var c C17Case
	c.Chain = []string{"userspace", "hotfix", "fsp"}
	switch pick(t, "mode", []string{"none", "complain", "enforce"}) {
	case "complain":
		c.Chain = append(c.Chain, "complain")
	case "enforce":
		c.Chain = append(c.Chain, "enforce")
	}
	if chance(t, "abi3", 3) {
		c.Chain = append(c.Chain, "abi3")
	}
	n := rapid.IntRange(1, 10).Draw(t, "n")
	paths := []string{"@{bin}/foo", "@{lib}/bar/*", "/usr/share/Ux/run", "@{bin}/{a,b}", "/opt/PUx.d/x", `"@{bin}/a b"`, "@{bin}/**", "/usr/bin/rUx"}
	for i := 0; i < n; i++ {
		ind := pick(t, "indent", []string{"  ", "    ", "        "})
		pre := pick(t, "prefix", []string{"", "", "owner ", "audit "})
		p := pick(t, "path", paths)
		pad := strings.Repeat(" ", rapid.IntRange(1, 12).Draw(t, "pad"))
		tail := pick(t, "tail", []string{"", "", " # a comment", "  # TODO: write the profile", " #aa:only opensuse", " # rPUx, in a comment"})
		switch pick(t, "kind", []string{"fsp", "fsp", "fsp", "target", "other", "comment"}) {
		case "fsp":
			acc := pick(t, "acc", []string{"rPUx,", "rUx,"})
			c.Lines = append(c.Lines, C17Line{Text: ind + pre + p + pad + acc + tail, Expect: "rpx,"})
		case "target":
			c.Lines = append(c.Lines, C17Line{Text: ind + pre + p + pad + pick(t, "tacc", []string{"rPUx", "rPx", "rCx"}) + " -> foo_sub," + tail})
		case "other":
			c.Lines = append(c.Lines, C17Line{Text: ind + pre + p + pad + pick(t, "oacc", []string{"rPx,", "rix,", "mr,", "rw,", "rCx,", "mrix,"}) + tail})
		case "comment":
			c.Lines = append(c.Lines, C17Line{Text: ind + "# " + p + " rPUx, is not a rule"})
		}
	}
	return c
}

func TestC17_Generated(t *testing.T) {
	ev := NewEv(t, "C17", "generated", "generated profiles run in-process through the registered builder chain of a --full build (userspace, hotfix, fsp, optionally complain|enforce and abi3): 1-10 lines that are rPUx/rUx rules in every indentation / alignment / owner / audit / trailing-comment shape, look-alikes that must not change (explicit '->' targets, other modes, paths containing 'Ux'/'PUx', comments); oracle: independent line tokenizer - the access token of each such rule is 'rpx' (case-folded) and every other token / line only changes in letter case. Non-trivial: a case with >= 1 rewritten rule and >= 1 look-alike; distinct by text")
	rapid.Check(t, func(t *rapid.T) {
		c := genC17Case(t)
		nf, no := 0, 0
		for _, l := range c.Lines {
			if l.Expect != "" {
				nf++
			} else {
				no++
			}
		}
		key := ""
		if nf > 0 && no > 0 {
			key = strings.Join(c.Chain, ",") + "\n" + c.Text()
		}
		ev.Case(key, "chain:"+strings.Join(c.Chain, ","))
		ev.Sample(map[string]any{"chain": c.Chain, "lines": c.Lines})
		if err := c17Oracle(c); err != nil {
			if Explore(firstLine(err), err) {
				return
			}
			t.Fatalf("%s", ev.Fail(c, "", "%v", err))
		}
	})
	ExploreReport(t)
}

func TestC17_Replay(t *testing.T) {
	path := os.Getenv("VERIF_REPLAY")
	if path == "" {
		t.Skip("no VERIF_REPLAY")
	}
	rf, err := LoadReplay(path, nil)
	if err != nil {
		t.Fatal(err)
	}
	ev := NewEv(t, "C17", "replay", "replay of one saved case")
	ev.Case("replay")
	if rf.Sub == "generated" {
		var c C17Case
		json.Unmarshal(rf.Case, &c)
		if oerr := c17Oracle(c); oerr != nil {
			ev.Violate(json.RawMessage(rf.Case), "", "%v", oerr)
			t.Fatalf("%v", oerr)
		}
		return
	}
	// shipped: rebuild the configuration and re-check the one rule
	var w struct {
		Config  Config `json:"config"`
		File    string `json:"file"`
		Path    string `json:"path"`
		Ordinal int    `json:"ordinal"`
	}
	json.Unmarshal(rf.Case, &w)
	if err := haveBins(); err != nil {
		t.Fatalf("INFRA: %v", err)
	}
	b, err := BuildShipped(w.Config, false)
	defer b.Clean()
	if err != nil {
		t.Fatalf("INFRA: %v", err)
	}
	name := flattenRel(w.File)
	text := readFile(filepath.Join(b.Apparmord(), name)) + readFile(filepath.Join(b.Apparmord(), name+".apparmor.d"))
	acc, line := builtAccess(text, w.Path, max(w.Ordinal, 1))
	if w.Config.Full && acc != "" && strings.ToLower(acc) != "rpx," {
		ev.Violate(json.RawMessage(rf.Case), "", "%s %s: built as %q", w.Config, w.File, line)
		t.Fatalf("%s %s: built as %q", w.Config, w.File, line)
	}
}
