package harness

// C15 — aa-log reports each record's own field values, faithfully decoded.

import (
	"encoding/json"
	"fmt"
	"os"
	"sort"
	"strings"
	"testing"

	"github.com/roddhjav/apparmor.d/pkg/logs"
	"pgregory.net/rapid"
)

// LogField is one key=value of a record with the encoding used on the wire.
type LogField struct {
	Key   string `json:"key"`
	Value string `json:"value"`
	Enc   string `json:"enc"` // quoted | hex | bare
}

type LogRecord struct {
	Prefix string     `json:"prefix"`
	Fields []LogField `json:"fields"`
	Broken bool       `json:"broken,omitempty"` // deliberately malformed (odd number of quotes)
}

func (r LogRecord) Line() string {
	var b strings.Builder
	b.WriteString(r.Prefix)
	for i, f := range r.Fields {
		if i > 0 {
			b.WriteString(" ")
		}
		switch f.Enc {
		case "quoted":
			b.WriteString(f.Key + `="` + f.Value + `"`)
		case "hex":
			b.WriteString(f.Key + "=" + strings.ToUpper(fmt.Sprintf("%x", f.Value)))
		default:
			b.WriteString(f.Key + "=" + f.Value)
		}
	}
	return b.String()
}

// kernelEnc: audit_log_untrustedstring — hex (upper case, unquoted) when the
// value holds a byte < 0x21, > 0x7e or a double quote, otherwise quoted.
func kernelEnc(v string) string {
	for i := 0; i < len(v); i++ {
		if v[i] < 0x21 || v[i] > 0x7e || v[i] == '"' {
			return "hex"
		}
	}
	return "quoted"
}

var logPrefixes = []string{
	"type=AVC msg=audit(1700000000.123:456): ",
	"Oct  1 12:00:00 host kernel: [  123.456789] audit: type=1400 audit(1700000000.123:457): ",
	"",
	"type=USER_AVC msg=audit(1700000000.500:99): pid=1 uid=102 auid=4294967295 ses=4294967295 subj=unconfined msg='",
}

// generalisation-neutral material: nothing here is matched by the documented
// path generalisation of profile / name / target.
var neutralDirs = []string{"/opt", "/srv/www", "/etc", "/var/cache/foo", "/media/disk", "/mnt/q", "/boot"}
var neutralWords = []string{"foo", "Bar", "x-y_z", "lib_so_q", "data", "K", "zz9", "mm", "conf.d"}
var hostileBits = []string{" $HOME ", "$1 x", "${x} y", "#101", "#1234", "/./", " ", "  ", "   ", "\\", "=", "#", ",", "é", "日本", " = ", "a b", "==", "#!", "\"", "\t", "'", ":", ";", "(", ")"}

func genNeutralPath(t *rapid.T, label string, hostile bool) string {
	p := pick(t, label+"dir", neutralDirs)
	n := rapid.IntRange(1, 3).Draw(t, label+"n")
	for i := 0; i < n; i++ {
		w := pick(t, label+"w", neutralWords)
		if hostile && chance(t, label+"h", 2) {
			w += pick(t, label+"hb", hostileBits) + pick(t, label+"w2", neutralWords)
		}
		p += "/" + w
	}
	if chance(t, label+"dir", 5) {
		p += "/" // a directory access: the name ends in a slash
	}
	if hostile && chance(t, label+"tail", 4) {
		// a hostile byte as the very last (or, after the slash, first) byte of the value
		p += pick(t, label+"tailb", []string{"\\", "'", "#", "=", ",", " ", "é", "/'x'", "\\\\"})
	}
	return p
}

// generalisable values: the documented path generalisation would rewrite them in profile, name and
// target; in every other field they must be reported as they are.
var generalisable = []string{"/usr/bin/pulseaudio", "/home/alice/.config/x", "/run/user/1000/bus", "/proc/1234/stat", "/usr/lib/x86_64-linux-gnu/foo", "1000", "1234567", "/tmp/x", "/var/tmp/q", "/usr/libexec/q"}

func genLogRecord(t *rapid.T, idx int) (LogRecord, map[string]string) {
	var r LogRecord
	want := map[string]string{}
	r.Prefix = pick(t, "prefix", logPrefixes)
	add := func(k, v, enc string) {
		r.Fields = append(r.Fields, LogField{Key: k, Value: v, Enc: enc})
		want[k] = v
	}
	add("apparmor", pick(t, "state", []string{"DENIED", "ALLOWED", "AUDIT"}), "quoted")
	dbusStyle := chance(t, "dbusstyle", 5) // dbus-daemon quotes every value
	enc := func(v string) string {
		if dbusStyle {
			return "quoted"
		}
		return kernelEnc(v)
	}
	hostile := rapid.Bool().Draw(t, "hostile")
	if dbusStyle {
		hostile = false // a quote or control byte cannot be written inside a quoted value
	}
	// the fields after apparmor= come in any order and any subset
	type fld struct{ k, v, e string }
	var fs []fld
	op := pick(t, "op", []string{"open", "exec", "mknod", "file_mmap", "connect", "dbus_method_call", "mount", "signal"})
	fs = append(fs, fld{"operation", op, "quoted"})
	if chance(t, "class", 2) {
		fs = append(fs, fld{"class", pick(t, "classv", []string{"file", "net", "dbus", "signal", "mount"}), "quoted"})
	}
	prof := pick(t, "prof", []string{"foo", "foo//bar", "Xorg", "zz-q.r"})
	if hostile && chance(t, "profhost", 3) {
		prof += pick(t, "profhb", []string{" ", "é", "=", "#"}) + "x"
	}
	fs = append(fs, fld{"profile", prof, enc(prof)})
	name := genNeutralPath(t, "name", hostile)
	if chance(t, "hexlook", 6) {
		name = pick(t, "hexlookv", []string{"DEADBEEF", "ABCDEF", "0123", "CAFE", "A"}) // values that merely look like hex: the kernel quotes them
	}
	if !chance(t, "noname", 6) { // signal, ptrace and network records carry no name
		fs = append(fs, fld{"name", name, enc(name)})
	}
	// unique token in comm, possibly hostile
	comm := fmt.Sprintf("tok%dq", idx)
	if hostile && chance(t, "commhost", 3) {
		comm += pick(t, "commhb", []string{" ", "é", "#", "="}) + "w"
	}
	if hostile && chance(t, "commedge", 4) {
		comm = pick(t, "commlead", []string{"'", "\\", "#", "="}) + comm + pick(t, "commtail", []string{"'", "\\", "#", "", "="})
	}
	fs = append(fs, fld{"comm", comm, enc(comm)})
	fs = append(fs, fld{"pid", fmt.Sprint(rapid.IntRange(1, 99999).Draw(t, "pid")), "bare"})
	if chance(t, "masks", 2) {
		m := pick(t, "mask", []string{"r", "w", "rw", "x", "wc", "send receive"})
		fs = append(fs, fld{"requested_mask", m, "quoted"}, fld{"denied_mask", m, "quoted"})
	}
	if chance(t, "uids", 2) {
		fs = append(fs, fld{"fsuid", pick(t, "fsuid", []string{"0", "1001", "500"}), "bare"}, fld{"ouid", pick(t, "ouid", []string{"0", "1001", "500"}), "bare"})
	}
	if chance(t, "info", 3) {
		fs = append(fs, fld{"info", pick(t, "infov", []string{"Failed name lookup - disconnected path", "no new privs", "a = b", "x # y", "optional: foo", "two  spaces   here", "'quoted' text'", "see /home/alice/x", "ends with \\", "uid 1000"}), "quoted"})
		fs = append(fs, fld{"error", "-13", "bare"})
	}
	if chance(t, "target", 4) {
		fs = append(fs, fld{"target", pick(t, "targetv", []string{"foo//bar", "zz-q", "/opt/q/r"}), "quoted"})
	}
	if chance(t, "keyslikename", 3) {
		// keys that merely end in name / comm / profile
		switch pick(t, "lookalike", []string{"hostname", "srcname", "hostname", "srcname"}) {
		case "hostname":
			fs = append(fs, fld{"hostname", pick(t, "hostv", []string{"?", "DEADBEEF", "ABC123", "host-q", "DESKTOP-1", "C3PO", "fedora"}), "bare"})
		case "srcname":
			v := genNeutralPath(t, "src", hostile)
			if chance(t, "srcgen", 3) {
				v = pick(t, "srcgenv", generalisable)
			}
			fs = append(fs, fld{"srcname", v, enc(v)})
		case "peer_profile":
			fs = append(fs, fld{"peer_profile", pick(t, "ppv", []string{"ABCD", "foo", "CAFE//bar"}), "bare"})
		case "subcomm":
			fs = append(fs, fld{"subcomm", pick(t, "scv", []string{"FEED", "q"}), "bare"})
		}
	}
	if chance(t, "extra", 3) {
		pv := pick(t, "peerv", append([]string{"unconfined", "foo//bar", "a b", "it's", "'q'"}, generalisable...))
		fs = append(fs, fld{pick(t, "peerkey", []string{"peer", "peer", "peer_label"}), pv, "quoted"})
		if chance(t, "label", 3) {
			fs = append(fs, fld{"label", pick(t, "labelv", append([]string{"foo", "unconfined"}, generalisable...)), "quoted"})
		}
		fs = append(fs, fld{"addr", pick(t, "addrv", []string{"none", "@/tmp/q r", "@2F746D702F71"}), "quoted"})
	}
	order := rapid.Permutation(intRange(len(fs))).Draw(t, "order")
	for _, i := range order {
		add(fs[i].k, fs[i].v, fs[i].e)
	}
	if strings.HasPrefix(r.Prefix, "type=USER_AVC") {
		r.Fields = append(r.Fields, LogField{Key: "exe", Value: "/usr/bin/dbus-daemon", Enc: "quoted"})
		want["exe"] = "/usr/bin/dbus-daemon"
	}
	return r, want
}

type C15Case struct {
	Records []LogRecord         `json:"records"`
	Want    []map[string]string `json:"want"`
}

func (c C15Case) Text() string {
	var b strings.Builder
	for _, r := range c.Records {
		b.WriteString(r.Line() + "\n")
	}
	return b.String()
}

func safeLogsNew(text, profile string) (res logs.AppArmorLogs, err error) {
	defer func() {
		if p := recover(); p != nil {
			err = fmt.Errorf("logs.New panicked: %v", p)
		}
	}()
	return logs.New(strings.NewReader(text), profile), nil
}

// ignoredKeys: the documented cleaning removes pids; everything else must be reported.
var c15Ignored = map[string]bool{"pid": true, "peer_pid": true}

func c15Oracle(c C15Case) error {
	text := c.Text()
	got, err := safeLogsNew(text, "")
	if err != nil {
		return fmt.Errorf("%v\n--- input\n%s", err, text)
	}
	// well-formed records are matched to results through their unique comm token
	byTok := map[string]map[string]string{}
	for _, g := range got {
		for tok := range tokenSet(g) {
			byTok[tok] = g
		}
	}
	wi := 0
	for ri, r := range c.Records {
		if r.Broken {
			continue
		}
		want := c.Want[wi]
		wi++
		tok := tokenOf(want["comm"])
		g, ok := byTok[tok]
		if !ok {
			return fmt.Errorf("record %d (token %s) is not reported\n--- input\n%s--- reported\n%s", ri, tok, text, dumpLogs(got))
		}
		for k, v := range want {
			if c15Ignored[k] {
				continue
			}
			if gv, ok := g[k]; !ok || gv != v {
				return fmt.Errorf("record %d: field %s is %q, want %q\n--- line\n%s\n--- reported\n%s", ri, k, gv, v, r.Line(), dumpLog(g))
			}
		}
		for k, gv := range g {
			if _, ok := want[k]; !ok {
				return fmt.Errorf("record %d: reports a field %s=%q that the record does not have\n--- line\n%s\n--- reported\n%s", ri, k, gv, r.Line(), dumpLog(g))
			}
		}
	}
	return nil
}

func tokenOf(comm string) string {
	i := strings.Index(comm, "tok")
	if i < 0 {
		return ""
	}
	j := i + 3
	for j < len(comm) && comm[j] >= '0' && comm[j] <= '9' {
		j++
	}
	if j < len(comm) && comm[j] == 'q' {
		return comm[i : j+1]
	}
	return ""
}

func tokenSet(g map[string]string) map[string]bool {
	res := map[string]bool{}
	for _, v := range g {
		rest := v
		for {
			i := strings.Index(rest, "tok")
			if i < 0 {
				break
			}
			if t := tokenOf(rest[i:]); t != "" {
				res[t] = true
			}
			rest = rest[i+3:]
		}
	}
	return res
}

func dumpLog(g map[string]string) string {
	keys := make([]string, 0, len(g))
	for k := range g {
		keys = append(keys, k)
	}
	sort.Strings(keys)
	var b strings.Builder
	for _, k := range keys {
		fmt.Fprintf(&b, "  %s=%q\n", k, g[k])
	}
	return b.String()
}

func dumpLogs(l logs.AppArmorLogs) string {
	var b strings.Builder
	for i, g := range l {
		fmt.Fprintf(&b, " [%d]\n%s", i, dumpLog(g))
	}
	return b.String()
}

func c15Nontrivial(c C15Case) string {
	nt := false
	prevBroken := false
	for _, r := range c.Records {
		if r.Broken {
			prevBroken = true
			continue
		}
		if prevBroken {
			nt = true
		}
		for _, f := range r.Fields {
			if f.Enc == "hex" || strings.ContainsAny(f.Value, " =#") {
				nt = true
			}
			if f.Enc != "hex" && f.Value != "" && strings.Trim(f.Value, "0123456789ABCDEF") == "" && f.Key != "pid" && f.Key != "fsuid" && f.Key != "ouid" {
				nt = true // hex-looking
			}
		}
	}
	if nt {
		return c.Text()
	}
	return ""
}

func genC15Case(t *rapid.T) C15Case {
	var c C15Case
	n := rapid.IntRange(1, 4).Draw(t, "nrec")
	for i := 0; i < n; i++ {
		if chance(t, "broken", 5) {
			// a malformed record: odd number of quotes
			r, _ := genLogRecord(t, 1000+i)
			r.Broken = true
			r.Fields = append(r.Fields, LogField{Key: "info", Value: `unterminated`, Enc: "bare"})
			r.Fields[len(r.Fields)-1].Value = `"unterminated`
			c.Records = append(c.Records, r)
			continue
		}
		r, want := genLogRecord(t, i)
		c.Records = append(c.Records, r)
		c.Want = append(c.Want, want)
	}
	return c
}

func TestC15_Fields(t *testing.T) {
	ev := NewEv(t, "C15", "fields", "log files of 1-4 records built from a field map: keys in any order, any subset of optional fields, values with spaces, '=', '#', ',', quotes, control bytes and UTF-8, encoded the way the kernel does (hex, upper case, unquoted when a byte is < 0x21, > 0x7e or '\"', else quoted) or the way dbus-daemon does (always quoted), values that merely look like hex, keys that end in name/comm/profile (hostname, srcname, peer_profile), malformed records (odd quotes) before well-formed ones; audit.log, syslog and USER_AVC framing; profile/name/target values from a generalisation-neutral alphabet. Oracle: logs.New returns for each well-formed record exactly its field map (pids aside). Non-trivial: a value with space, '=', '#', a hex-encoded or hex-looking value, or a record after a malformed one; distinct by text")
	rapid.Check(t, func(t *rapid.T) {
		c := genC15Case(t)
		if key := c15Excluded(c); key != "" {
			ev.ExcludedKnown(key)
			ev.Case("", "excluded")
			return
		}
		ev.Case(c15Nontrivial(c))
		ev.Sample(map[string]any{"text": c.Text()})
		if err := c15Oracle(c); err != nil {
			if Explore(firstLine(err), err) {
				return
			}
			t.Fatalf("%s", ev.Fail(c, "", "%v", err))
		}
	})
	ExploreReport(t)
}

// c15Excluded: listed known findings are excluded by construction.
func c15Excluded(c C15Case) string {
	if IsKnown("C15", "hex-value-with-double-quote") {
		for _, r := range c.Records {
			if r.Broken {
				continue
			}
			for _, f := range r.Fields {
				if f.Enc == "hex" && strings.Contains(f.Value, `"`) {
					return "hex-value-with-double-quote"
				}
			}
		}
	}
	return ""
}

// TestC15_Witnesses: fixed witnesses of listed findings.
func TestC15_Witnesses(t *testing.T) {
	ev := NewEv(t, "C15", "witnesses", "fixed witnesses of listed and repaired findings")
	mk := func(fields ...LogField) C15Case {
		r := LogRecord{Prefix: logPrefixes[0], Fields: fields}
		want := map[string]string{}
		for _, f := range fields {
			want[f.Key] = f.Value
		}
		return C15Case{Records: []LogRecord{r}, Want: []map[string]string{want}}
	}
	q := func(k, v string) LogField { return LogField{Key: k, Value: v, Enc: "quoted"} }
	ws := []struct {
		key, what string
		c         C15Case
	}{
		{"hex-value-with-double-quote", "a hex-encoded name whose decoded bytes contain a double quote breaks the field splitting of the whole record",
			mk(q("apparmor", "DENIED"), q("operation", "open"), q("profile", "foo"), LogField{Key: "name", Value: `/opt/a"b`, Enc: "hex"}, q("comm", "tok0q"))},
		{"", "hostname that starts with hex digits", mk(q("apparmor", "DENIED"), q("operation", "open"), q("profile", "foo"), q("name", "/opt/a"), q("comm", "tok0q"), LogField{Key: "hostname", Value: "DESKTOP-1", Enc: "bare"})},
	}
	for i, w := range ws {
		ev.Case(fmt.Sprintf("w%d", i))
		ev.Sample(map[string]any{"text": w.c.Text()})
		err := c15Oracle(w.c)
		if err == nil {
			continue
		}
		if w.key != "" && IsKnown("C15", w.key) {
			ev.KnownFinding(w.key, w.what)
			continue
		}
		ev.Violate(w.c, w.key, "witness %q: %v", w.what, err)
		t.Errorf("witness %q: %v", w.what, err)
	}
}

func TestC15_Replay(t *testing.T) {
	path := os.Getenv("VERIF_REPLAY")
	if path == "" {
		t.Skip("no VERIF_REPLAY")
	}
	var c C15Case
	rf, err := LoadReplay(path, &c)
	if err != nil {
		t.Fatal(err)
	}
	ev := NewEv(t, "C15", "replay", "replay of one saved case")
	ev.Case("replay")
	if oerr := c15Oracle(c); oerr != nil {
		ev.Violate(json.RawMessage(rf.Case), "", "%v", oerr)
		t.Fatalf("%v", oerr)
	}
}
