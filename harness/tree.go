package harness

// tree.go: the configuration matrix and scratch builds with the real prebuild
// binary (built by the driver from the current tree with -tags verif).
// Nothing is ever written under the repository: a build runs in a scratch
// directory whose apparmor.d, dists, systemd and share entries are symlinks
// to the source tree; .build and debian/ land in the scratch directory.

import (
	"bytes"
	"crypto/sha256"
	"encoding/hex"
	"errors"
	"fmt"
	"os"
	"os/exec"
	"path/filepath"
	"regexp"
	"sort"
	"strings"
	"sync"
	"sync/atomic"
	"time"
)

type Config struct {
	Dist    string `json:"dist"`
	ABI     int    `json:"abi"`
	Version string `json:"version"` // "3.0", "4.0", "4.1"
	Mode    string `json:"mode"`    // "", "complain", "enforce"
	Full    bool   `json:"full"`
	Short   bool   `json:"short,omitempty"` // give the options in their one-letter spelling (-a -v -c -e -f)
}

func (c Config) String() string {
	m := c.Mode
	if m == "" {
		m = "none"
	}
	f := "normal"
	if c.Full {
		f = "full"
	}
	return fmt.Sprintf("%s/abi%d/%s/%s/%s", c.Dist, c.ABI, c.Version, m, f)
}

func (c Config) Args() []string {
	abi, ver, complain, enforce, full := "--abi", "--version", "--complain", "--enforce", "--full"
	if c.Short {
		abi, ver, complain, enforce, full = "-a", "-v", "-c", "-e", "-f"
	}
	a := []string{abi, fmt.Sprint(c.ABI), ver, c.Version}
	switch c.Mode {
	case "complain":
		a = append(a, complain)
	case "enforce":
		a = append(a, enforce)
	}
	if c.Full {
		a = append(a, full)
	}
	return a
}

func (c Config) Target() Target {
	v := 0.0
	fmt.Sscanf(c.Version, "%g", &v)
	return Target{Dist: c.Dist, ABI: c.ABI, Version: v}
}

var primaryAV = []struct {
	ABI int
	Ver string
}{{3, "3.0"}, {4, "4.0"}, {4, "4.1"}}

var allModes = []string{"", "complain", "enforce"}

// PrimaryConfigs: the 90 configurations cmd/prebuild/main.go itself can select.
func PrimaryConfigs() []Config {
	var res []Config
	for _, d := range allDists {
		for _, av := range primaryAV {
			for _, m := range allModes {
				for _, f := range []bool{false, true} {
					res = append(res, Config{Dist: d, ABI: av.ABI, Version: av.Ver, Mode: m, Full: f})
				}
			}
		}
	}
	return res
}

type Build struct {
	Dir string
	Cfg Config
	Log string
}

func (b *Build) Root() string      { return filepath.Join(b.Dir, ".build") }
func (b *Build) Apparmord() string { return filepath.Join(b.Dir, ".build", "apparmor.d") }
func (b *Build) Clean() {
	if b != nil && b.Dir != "" {
		os.RemoveAll(b.Dir)
	}
}

var buildSeq int64

func prebuildBin() string { return filepath.Join(os.Getenv("VERIF_BIN"), "prebuild") }

func haveBins() error {
	if _, err := os.Stat(prebuildBin()); err != nil {
		return fmt.Errorf("prebuild binary not built (VERIF_BIN=%q): %v", os.Getenv("VERIF_BIN"), err)
	}
	return nil
}

// newScratchTree creates a scratch build directory over src (a directory with
// apparmor.d, dists, systemd, share), using symlinks.
func newScratchTree(src string) (string, error) { return newScratchTreeIn(refScratch(), src) }

// otherFilesystem: a writable directory on another kind of filesystem than the scratch
// directory (tmpfs lists a directory in another raw order than ext4), "" if there is none.
func otherFilesystem() string {
	base := "/dev/shm"
	if st, err := os.Stat(base); err != nil || !st.IsDir() {
		return ""
	}
	probe := filepath.Join(base, fmt.Sprintf("verif-probe-%d", os.Getpid()))
	if err := os.MkdirAll(probe, 0o755); err != nil {
		return ""
	}
	os.RemoveAll(probe)
	// leftovers of runs that were killed
	if entries, err := os.ReadDir(base); err == nil {
		for _, e := range entries {
			if info, ierr := e.Info(); ierr == nil && strings.HasPrefix(e.Name(), "verif-build-") && time.Since(info.ModTime()) > 2*time.Hour {
				os.RemoveAll(filepath.Join(base, e.Name()))
			}
		}
	}
	return base
}

func newScratchTreeIn(base, src string) (string, error) {
	n := atomic.AddInt64(&buildSeq, 1)
	dir := filepath.Join(base, fmt.Sprintf("verif-build-%d-%d", os.Getpid(), n))
	if err := os.MkdirAll(filepath.Join(dir, "debian"), 0o755); err != nil {
		return "", err
	}
	for _, name := range []string{"apparmor.d", "dists", "systemd", "share"} {
		if _, err := os.Stat(filepath.Join(src, name)); err != nil {
			continue
		}
		if err := os.Symlink(filepath.Join(src, name), filepath.Join(dir, name)); err != nil {
			return "", err
		}
	}
	return dir, nil
}

// RunPrebuild runs the real binary in dir (which must hold the source entries).
func RunPrebuild(dir string, c Config, prepareOnly bool) (string, error) {
	cmd := exec.Command(prebuildBin(), c.Args()...)
	cmd.Dir = dir
	cmd.Env = append(os.Environ(), "DISTRIBUTION="+c.Dist)
	if prepareOnly {
		cmd.Env = append(cmd.Env, "VERIF_PREPARE_ONLY=1")
	}
	var out bytes.Buffer
	cmd.Stdout = &out
	cmd.Stderr = &out
	err := cmd.Run()
	return out.String(), err
}

// BuildShipped builds the shipped tree for one configuration.
func BuildShipped(c Config, prepareOnly bool) (*Build, error) {
	return BuildFrom(repoRoot(), c, prepareOnly)
}

func BuildFrom(src string, c Config, prepareOnly bool) (*Build, error) {
	return BuildFromIn(refScratch(), src, c, prepareOnly)
}

func BuildFromIn(base, src string, c Config, prepareOnly bool) (*Build, error) {
	dir, err := newScratchTreeIn(base, src)
	if err != nil {
		return nil, err
	}
	log, err := RunPrebuild(dir, c, prepareOnly)
	b := &Build{Dir: dir, Cfg: c, Log: log}
	if err != nil {
		if isBuildAbort(err, log) && src == repoRoot() {
			noteBuildAbort(c.String(), tail(strings.TrimSpace(stripANSI(log)), 600))
		}
		return b, fmt.Errorf("prebuild %s failed: %v\n%s", c, err, tail(log, 2000))
	}
	return b, nil
}

// isBuildAbort: the program ran and gave up by itself (exit status, not a signal), and not for
// lack of a resource.
func isBuildAbort(err error, log string) bool {
	var ee *exec.ExitError
	if !errors.As(err, &ee) || ee.ExitCode() <= 0 {
		return false
	}
	low := strings.ToLower(log)
	for _, s := range []string{"no space left", "cannot allocate memory", "too many open files", "resource temporarily unavailable", "read-only file system"} {
		if strings.Contains(low, s) {
			return false
		}
	}
	return true
}

var reANSI = regexp.MustCompile("\x1b\\[[0-9;]*m")

func stripANSI(s string) string { return reANSI.ReplaceAllString(s, "") }

func tail(s string, n int) string {
	if len(s) > n {
		return "..." + s[len(s)-n:]
	}
	return s
}

// parallel runs fn over 0..n-1 with at most par workers.
func parallel(n, par int, fn func(i int)) {
	if par <= 0 {
		par = 16
	}
	var wg sync.WaitGroup
	sem := make(chan struct{}, par)
	for i := 0; i < n; i++ {
		wg.Add(1)
		sem <- struct{}{}
		go func(i int) {
			defer wg.Done()
			defer func() { <-sem }()
			fn(i)
		}(i)
	}
	wg.Wait()
}

// Manifest maps relative path -> "f:<sha256>" for files, "l:<target>" for
// symlinks, "d" for directories.
type Manifest map[string]string

func ManifestOf(root string, subdirs ...string) (Manifest, error) {
	m := Manifest{}
	for _, sd := range subdirs {
		base := filepath.Join(root, sd)
		if _, err := os.Lstat(base); err != nil {
			continue
		}
		err := filepath.Walk(base, func(path string, info os.FileInfo, err error) error {
			if err != nil {
				return err
			}
			rel, _ := filepath.Rel(root, path)
			switch {
			case info.Mode()&os.ModeSymlink != 0:
				t, _ := os.Readlink(path)
				m[rel] = "l:" + t
			case info.IsDir():
				m[rel] = "d"
			default:
				data, err := os.ReadFile(path)
				if err != nil {
					return err
				}
				h := sha256.Sum256(data)
				m[rel] = "f:" + hex.EncodeToString(h[:8])
			}
			return nil
		})
		if err != nil {
			return nil, err
		}
	}
	return m, nil
}

func (m Manifest) Diff(o Manifest) []string {
	var res []string
	for k, v := range m {
		if ov, ok := o[k]; !ok {
			res = append(res, "only in first: "+k)
		} else if ov != v {
			res = append(res, "differs: "+k)
		}
	}
	for k := range o {
		if _, ok := m[k]; !ok {
			res = append(res, "only in second: "+k)
		}
	}
	sort.Strings(res)
	return res
}

// listFiles returns the regular files (and symlinks) below root, relative.
func listFiles(root string) []string {
	var res []string
	filepath.Walk(root, func(path string, info os.FileInfo, err error) error {
		if err != nil || info.IsDir() {
			return nil
		}
		rel, _ := filepath.Rel(root, path)
		res = append(res, rel)
		return nil
	})
	sort.Strings(res)
	return res
}

func readFile(path string) string {
	data, err := os.ReadFile(path)
	if err != nil {
		return ""
	}
	return string(data)
}

func tier() string {
	if t := os.Getenv("VERIF_TIER"); t != "" {
		return t
	}
	return "quick"
}

func isThorough() bool { return tier() == "thorough" }

// seedInt derives a small deterministic integer from the effective seed.
func seedInt() int {
	var s int
	fmt.Sscanf(os.Getenv("VERIF_SEED_EFF"), "%d", &s)
	if s < 0 {
		s = -s
	}
	return s
}

// coveringSample picks k configurations, deterministically for a seed, such
// that every value of every option occurs at least once.
func coveringSample(all []Config, k int, seed int) []Config {
	idx := make([]int, len(all))
	for i := range idx {
		idx[i] = i
	}
	// deterministic shuffle (LCG)
	x := uint64(seed)*6364136223846793005 + 1442695040888963407
	for i := len(idx) - 1; i > 0; i-- {
		x = x*6364136223846793005 + 1442695040888963407
		j := int((x >> 33) % uint64(i+1))
		idx[i], idx[j] = idx[j], idx[i]
	}
	need := map[string]bool{}
	for _, c := range all {
		for _, v := range optionValues(c) {
			need[v] = true
		}
	}
	var res []Config
	used := map[int]bool{}
	for len(need) > 0 && len(res) < k {
		best, bestGain := -1, 0
		for _, i := range idx {
			if used[i] {
				continue
			}
			g := 0
			for _, v := range optionValues(all[i]) {
				if need[v] {
					g++
				}
			}
			if g > bestGain {
				best, bestGain = i, g
			}
		}
		if best < 0 {
			break
		}
		used[best] = true
		res = append(res, all[best])
		for _, v := range optionValues(all[best]) {
			delete(need, v)
		}
	}
	for _, i := range idx {
		if len(res) >= k {
			break
		}
		if !used[i] {
			used[i] = true
			res = append(res, all[i])
		}
	}
	return res
}

func optionValues(c Config) []string {
	return []string{"dist:" + c.Dist, fmt.Sprintf("av:%d/%s", c.ABI, c.Version), "mode:" + c.Mode, fmt.Sprintf("full:%v", c.Full),
		fmt.Sprintf("dist+av:%s/%s", c.Dist, c.Version)}
}

func containsStr(l []string, s string) bool {
	for _, x := range l {
		if x == s {
			return true
		}
	}
	return false
}

func trimLines(s string) []string {
	var res []string
	for _, l := range strings.Split(s, "\n") {
		res = append(res, strings.TrimRight(l, " \t"))
	}
	return res
}
