package harness

// C06 — resolved attachments and exec rules match the same executables as @{exec_path}.

import (
	"encoding/json"
	"fmt"
	"os"
	"path/filepath"
	"regexp"
	"sort"
	"strings"
	"sync"
	"testing"

	"github.com/roddhjav/apparmor.d/pkg/prebuild"
	"github.com/roddhjav/apparmor.d/pkg/prebuild/builder"
	"pgregory.net/rapid"
)

var reTopHeader = regexp.MustCompile(`(?m)^profile\s+(\S+)\s+(\S+)[^\n]*\{\s*$`)

// splitBuilt returns the preamble (everything before the top-level header) and
// the attachment token of the header of a built profile file.
func splitBuilt(text string) (preamble, attachment string, ok bool) {
	loc := reTopHeader.FindStringSubmatchIndex(text)
	if loc == nil {
		return "", "", false
	}
	att := text[loc[4]:loc[5]]
	if strings.HasPrefix(att, "flags=") || strings.HasPrefix(att, "xattrs=") || att == "{" {
		return "", "", false
	}
	return text[:loc[0]], att, true
}

// tunablesOverlay lays the tunables of a build over the upstream policy directory.
func tunablesOverlay(aad string, name string) (string, error) {
	ov := filepath.Join(refScratch(), fmt.Sprintf("tun-%d-%s", os.Getpid(), name))
	os.RemoveAll(ov)
	if err := copyTree("/etc/apparmor.d", ov, nil); err != nil {
		return "", err
	}
	err := copyTree(filepath.Join(aad, "tunables"), filepath.Join(ov, "tunables"), func(rel string, data []byte) []byte {
		var out []string
		for _, l := range strings.Split(string(data), "\n") {
			if strings.HasPrefix(strings.TrimSpace(l), "@{") {
				if i := strings.Index(l, " #"); i >= 0 {
					l = l[:i] // 3.0.8 reads a trailing comment on a variable line as values
				}
			}
			out = append(out, l)
		}
		return []byte(strings.Join(out, "\n"))
	})
	if err != nil {
		return ov, err
	}
	// the tree's abstractions too (own-<bus> etc. are not part of upstream)
	err = copyTree(filepath.Join(aad, "abstractions"), filepath.Join(ov, "abstractions"), func(rel string, data []byte) []byte {
		return []byte(normaliseForRef(string(data)))
	})
	return ov, err
}

// stripPreambleForRef keeps what the reference parser needs from a preamble:
// abi/includes/variables (trailing comments on variable lines removed).
func preambleForRef(pre string) string {
	var out []string
	for _, l := range strings.Split(pre, "\n") {
		t := strings.TrimSpace(l)
		if strings.HasPrefix(t, "@{") {
			if i := strings.Index(l, " #"); i >= 0 {
				l = l[:i]
			}
		}
		l = strings.Replace(l, "abi/4.0", "abi/3.0", 1)
		out = append(out, l)
	}
	return strings.Join(out, "\n")
}

type attResult struct {
	ok           bool
	inconclusive bool
	msg          string
}

// compareAttachment: is the literal attachment equivalent to @{exec_path} under
// the tunables of the overlay?
func compareAttachment(ref Ref, preamble, literal string) attResult {
	pre := preambleForRef(preamble)
	pv, err := ref.CompileOne(pre + "\nprofile s @{exec_path} {\n}\n")
	if err == ErrRefTimeout {
		return attResult{inconclusive: true}
	}
	if err != nil {
		return attResult{msg: "HARNESS: the reference parser rejects the profile's own preamble with @{exec_path}: " + err.Error()}
	}
	pl, err := ref.CompileOne(pre + "\nprofile s " + literal + " {\n}\n")
	if err == ErrRefTimeout {
		return attResult{inconclusive: true}
	}
	if err != nil {
		return attResult{msg: "the literal attachment is rejected by the reference parser: " + err.Error()}
	}
	if w, ok := DistinguishPaths(pv.XMatch(), pl.XMatch(), viewAccepting); !ok {
		av, _ := pv.XMatch().Perms(w)
		dir := "added by the literal (not matched by @{exec_path})"
		if av != 0 {
			dir = "lost by the literal (matched by @{exec_path})"
		}
		return attResult{msg: fmt.Sprintf("attachment languages differ: path %q is %s", w, dir)}
	}
	return attResult{ok: true}
}

func c06Dists() []string {
	if isThorough() {
		return allDists
	}
	d := allDists[seedInt()%len(allDists)]
	if d == "opensuse" {
		return []string{"opensuse", "arch"}
	}
	return []string{d, "opensuse"} // opensuse carries the only distribution-specific tunable
}

func TestC06_Shipped(t *testing.T) {
	if err := haveBins(); err != nil {
		t.Fatalf("INFRA: %v", err)
	}
	if err := refAvailable(); err != nil {
		t.Fatalf("INFRA: %v", err)
	}
	ev := NewEv(t, "C06", "shipped", "every built profile whose header carries a resolved @{exec_path} attachment, for real builds of 5 distributions in thorough and 2 distributions (one seeded, and opensuse, which carries the only distribution-specific tunable) in quick, all ~1400 profiles each; oracle: two stub profiles compiled by the reference parser over upstream + built tunables - the profile's own preamble with 'profile s @{exec_path}' and with the literal attachment of the built header - must have equivalent attachment automata (product walk, shortest witness path). Non-trivial: exec_path with >= 2 values, a '+=' or a nested variable; distinct by distribution + profile")
	srcIdx := sourceTextIndex()
	var mu sync.Mutex
	for _, dist := range c06Dists() {
		c := Config{Dist: dist, ABI: 3, Version: "3.0"}
		b, err := BuildShipped(c, false)
		if err != nil {
			b.Clean()
			t.Fatalf("INFRA: %v", err)
		}
		ov, err := tunablesOverlay(b.Apparmord(), dist)
		if err != nil {
			b.Clean()
			t.Fatalf("INFRA: %v", err)
		}
		ref := Ref{Base: ov}
		var names []string
		entries, _ := os.ReadDir(b.Apparmord())
		for _, e := range entries {
			if !e.IsDir() && strings.Contains(srcIdx[strings.TrimSuffix(e.Name(), ".apparmor.d")], " @{exec_path}") {
				names = append(names, e.Name())
			}
		}
		sort.Strings(names)
		if false && !isThorough() && len(names) > 250 { // quick compares every profile too: a single-file slip must not hide in a sample
			// seeded sample
			x := uint64(seedInt())*2862933555777941757 + 3037000493
			for i := len(names) - 1; i > 0; i-- {
				x = x*2862933555777941757 + 3037000493
				j := int((x >> 33) % uint64(i+1))
				names[i], names[j] = names[j], names[i]
			}
			names = names[:250]
		}
		parallel(len(names), 16, func(i int) {
			name := names[i]
			text := readFile(filepath.Join(b.Apparmord(), name))
			pre, att, ok := splitBuilt(text)
			if !ok {
				return
			}
			res := compareAttachment(ref, pre, att)
			mu.Lock()
			defer mu.Unlock()
			key := ""
			src := srcIdx[strings.TrimSuffix(name, ".apparmor.d")]
			if strings.Contains(src, "@{exec_path} +=") || strings.Contains(src, "@{exec_path}+=") || regexp.MustCompile(`(?m)^@\{exec_path\}\s*=\s*\S+\s+\S+`).MatchString(src) || regexp.MustCompile(`(?m)^@\{exec_path\}.*@\{(lib|multiarch|arch|version|user_[a-z_]+|HOME)\}`).MatchString(src) {
				key = dist + "|" + name
			}
			ev.Case(key, "dist:"+dist)
			switch {
			case res.inconclusive:
				ev.Inconcl++
			case !res.ok:
				k := "attachment:" + dist + ":" + strings.TrimSuffix(name, ".apparmor.d")
				if IsKnown("C06", k) || IsKnown("C06", "attachment:*:"+strings.TrimSuffix(name, ".apparmor.d")) {
					ev.KnownFinding("attachment:*:"+strings.TrimSuffix(name, ".apparmor.d"), res.msg)
					return
				}
				// the opensuse-only multiarch value: a class of profiles, told by its witness
				if dist == "opensuse" && IsKnown("C06", "builtin-table:multiarch-opensuse") && strings.Contains(src, "@{multiarch}") &&
					strings.Contains(res.msg, "-suse-linux") && strings.Contains(res.msg, "lost by the literal") {
					ev.ExcludedKnown("builtin-table:multiarch-opensuse")
					if ev.Excluded["builtin-table:multiarch-opensuse"] == 1 {
						ev.KnownFinding("builtin-table:multiarch-opensuse", name+": "+res.msg)
					}
					return
				}
				ev.Violate(map[string]any{"dist": dist, "file": name}, k, "%s: %s: %s\n  built header attachment: %s", dist, name, res.msg, att)
				t.Errorf("%s: %s: %s", dist, name, res.msg)
			}
		})
		mu.Lock()
		ev.Sample(map[string]any{"dist": dist, "profiles_compared": len(names)})
		mu.Unlock()
		os.RemoveAll(ov)
		b.Clean()
	}
}

// ---------------------------------------------------------------------------
// generated preambles through the userspace builder

type C06Gen struct {
	Lines []C13Line `json:"lines"`
	// Earlier: appends to variables of the built-in table made by another profile that is
	// processed first in the same process; they are that profile's business only
	Earlier []C13Line `json:"earlier,omitempty"`
}

func (c C06Gen) earlierText() string {
	var b strings.Builder
	b.WriteString("abi <abi/4.0>,\n\ninclude <tunables/global>\n\n")
	for _, l := range c.Earlier {
		fmt.Fprintf(&b, "@{%s} += %s\n", l.Name, strings.Join(l.Values, " "))
	}
	b.WriteString("@{exec_path} = @{bin}/earlier @{lib}/earlier\nprofile earlier @{exec_path} {\n  include <abstractions/base>\n\n  @{exec_path} mr,\n\n  include if exists <local/earlier>\n}\n")
	return b.String()
}

func (c C06Gen) Text() string {
	var b strings.Builder
	b.WriteString("abi <abi/4.0>,\n\ninclude <tunables/global>\n\n")
	for _, l := range c.Lines {
		if l.Kind == "var" {
			op := "+="
			if l.Define {
				op = "="
			}
			fmt.Fprintf(&b, "@{%s} %s %s\n", l.Name, op, strings.Join(l.Values, " "))
		} else {
			b.WriteString(l.Text + "\n")
		}
	}
	b.WriteString("profile foo @{exec_path} {\n  include <abstractions/base>\n\n  @{exec_path} mr,\n\n  include if exists <local/foo>\n}\n")
	return b.String()
}

var c06Parts = []string{"@{bin}/", "@{lib}/", "@{lib}/@{multiarch}/", "/opt/", "/usr/share/", "@{bin}/foo", "bar", "{a,b}", "{,x/}y", "foo-@{version}", "@{arch}", "/", "qt@{int}", "*", "@{user_share_dirs}/", "@{HOME}/.local/", "[0-9]", "@{sbin}/", "ding@rastersoft.com/", "g++", "a=b", "{,/sub}", "x$name", "$1"}

func genC06Value(t *rapid.T, local []string) string {
	n := rapid.IntRange(1, 4).Draw(t, "nparts")
	var b strings.Builder
	for i := 0; i < n; i++ {
		if len(local) > 0 && chance(t, "localref", 4) {
			b.WriteString("@{" + pick(t, "local", local) + "}")
		} else {
			b.WriteString(pick(t, "part", c06Parts))
		}
	}
	v := b.String()
	if !strings.HasPrefix(v, "/") && !strings.HasPrefix(v, "@{") {
		v = "/" + v
	}
	for strings.Contains(v, "//") {
		v = strings.ReplaceAll(v, "//", "/") // nobody writes '///opt/': AppArmor collapses the run in a variable value but not across the alternation of the nested literal
	}
	if strings.Trim(v, "/") == "" {
		v = "/opt/x" // the root directory is not an executable
	}
	return v
}

func genC06Case(t *rapid.T) C06Gen {
	var c C06Gen
	// optional local helper variables, defined before use
	var local []string
	nl := rapid.IntRange(0, 2).Draw(t, "nlocal")
	for i := 0; i < nl; i++ {
		name := []string{"name", "lib_dirs"}[i]
		k := rapid.IntRange(1, 2).Draw(t, "nlv")
		var vals []string
		for j := 0; j < k; j++ {
			vals = append(vals, genC06Value(t, nil))
		}
		c.Lines = append(c.Lines, C13Line{Kind: "var", Name: name, Define: true, Values: vals})
		if chance(t, "localappend", 3) {
			// a helper variable that is appended to: what references it sees all its values
			c.Lines = append(c.Lines, C13Line{Kind: "var", Name: name, Values: []string{genC06Value(t, nil)}})
		}
		local = append(local, name)
	}
	k := rapid.IntRange(1, 3).Draw(t, "nvals")
	var vals []string
	for j := 0; j < k; j++ {
		vals = append(vals, genC06Value(t, local))
	}
	c.Lines = append(c.Lines, C13Line{Kind: "var", Name: "exec_path", Define: true, Values: vals})
	na := rapid.IntRange(0, 2).Draw(t, "nappends")
	for a := 0; a < na; a++ {
		if chance(t, "commentbetween", 3) {
			c.Lines = append(c.Lines, C13Line{Kind: "comment", Text: "# more locations"})
		}
		k := rapid.IntRange(1, 2).Draw(t, "nappvals")
		var av []string
		for j := 0; j < k; j++ {
			av = append(av, genC06Value(t, local))
		}
		c.Lines = append(c.Lines, C13Line{Kind: "var", Name: "exec_path", Values: av})
	}
	if rapid.Bool().Draw(t, "earlier") {
		for _, v := range subsetOrdered(t, "earliervars", []string{"bin", "lib", "multiarch", "sbin"}, 1, 2) {
			c.Earlier = append(c.Earlier, C13Line{Kind: "var", Name: v, Values: []string{"/opt/acme/" + v}})
		}
	}
	return c
}

var (
	c06ovOnce sync.Once
	c06ov     string
	c06ovErr  error
	c06mu     sync.Mutex
)

// shippedTunablesOverlay: upstream policy + the source tree's tunables, with the
// only/exclude markers of the tunables resolved for arch.
func shippedTunablesOverlay() (string, error) {
	c06ovOnce.Do(func() {
		b, err := BuildShipped(Config{Dist: "arch", ABI: 3, Version: "3.0"}, false)
		defer b.Clean()
		if err != nil {
			c06ovErr = err
			return
		}
		c06ov, c06ovErr = tunablesOverlay(b.Apparmord(), "gen")
	})
	return c06ov, c06ovErr
}

func c06GenOracle(c C06Gen) (bool, error) {
	ov, err := shippedTunablesOverlay()
	if err != nil {
		return false, fmt.Errorf("INFRA: %v", err)
	}
	c06mu.Lock()
	builder.Builds = nil
	builder.Register("userspace")
	prebuild.Distribution, prebuild.Family, prebuild.ABI, prebuild.Version = "arch", "pacman", 4, 4.1
	text := c.Text()
	out, berr := func() (s string, err error) {
		defer func() {
			if p := recover(); p != nil {
				err = fmt.Errorf("userspace builder panicked: %v", p)
			}
		}()
		if len(c.Earlier) > 0 {
			if _, err := builder.Run(prebuild.RootApparmord.Join("earlier"), c.earlierText()); err != nil {
				return "", fmt.Errorf("on the earlier profile: %v\n%s", err, c.earlierText())
			}
		}
		return builder.Run(prebuild.RootApparmord.Join("foo"), text)
	}()
	c06mu.Unlock()
	if berr != nil {
		return false, fmt.Errorf("the userspace builder fails on a valid profile: %v\n%s", berr, text)
	}
	pre, att, ok := splitBuilt(out)
	if !ok {
		return false, fmt.Errorf("no header with an attachment in the built text\n%s", out)
	}
	res := compareAttachment(Ref{Base: ov}, pre, att)
	if res.inconclusive {
		return true, nil
	}
	if !res.ok {
		if strings.HasPrefix(res.msg, "HARNESS") {
			return false, fmt.Errorf("%s\n%s", res.msg, text)
		}
		return false, fmt.Errorf("%s\n--- source\n%s--- built header attachment\n%s", res.msg, text, att)
	}
	return false, nil
}

func TestC06_Generated(t *testing.T) {
	if err := haveBins(); err != nil {
		t.Fatalf("INFRA: %v", err)
	}
	ev := NewEv(t, "C06", "generated", "generated preambles (0-2 local helper variables, @{exec_path} defined with 1-3 values and 0-2 '+=' appends of 1-2 values, comments in between, in half of the cases preceded in the same process by another profile that appends to 1-2 variables of the built-in table, values of 1-4 parts drawn from the shipped tunables - @{bin}, @{lib}, @{multiarch}, @{arch}, @{version}, @{int}, @{user_share_dirs}, @{HOME}, @{sbin} - literals, alternations and classes) run through the userspace builder in-process; same oracle as the shipped part, over upstream + shipped tunables. Non-trivial: >= 2 values, an append or a nested variable; distinct by text")
	rapid.Check(t, func(t *rapid.T) {
		c := genC06Case(t)
		if key := c06Excluded(c); key != "" {
			ev.ExcludedKnown(key)
			ev.Case("", "excluded")
			return
		}
		nvals := 0
		for _, l := range c.Lines {
			if l.Kind == "var" && l.Name == "exec_path" {
				nvals += len(l.Values)
			}
		}
		key := ""
		if nvals >= 2 || strings.Contains(c.Text(), "@{exec_path} =") && strings.Count(c.Text(), "@{") > 3 {
			key = c.Text()
		}
		inconclusive, err := c06GenOracle(c)
		if inconclusive {
			ev.Inconclusive()
		}
		ev.Case(key)
		ev.Sample(map[string]any{"text": c.Text()})
		if err != nil {
			if strings.HasPrefix(err.Error(), "INFRA") {
				t.Fatalf("%v", err)
			}
			if Explore(firstLine(err), err) {
				return
			}
			t.Fatalf("%s", ev.Fail(c, "", "%v", err))
		}
	})
	ExploreReport(t)
}

// c06Excluded: regions of listed known findings (built-in variable table drift).
func c06Excluded(c C06Gen) string {
	text := c.Text()
	for _, v := range []string{"arch", "version", "user_share_dirs", "HOME"} {
		k := "builtin-table:" + v
		if IsKnown("C06", k) && strings.Contains(text, "@{"+v+"}") {
			return k
		}
	}
	return ""
}

func TestC06_Replay(t *testing.T) {
	path := os.Getenv("VERIF_REPLAY")
	if path == "" {
		t.Skip("no VERIF_REPLAY")
	}
	rf, err := LoadReplay(path, nil)
	if err != nil {
		t.Fatal(err)
	}
	ev := NewEv(t, "C06", "replay", "replay of one saved case")
	ev.Case("replay")
	if rf.Sub == "exec" { // stage shared with C07
		var s C07Set
		json.Unmarshal(rf.Case, &s)
		if oerr := c07ExecOracle(s); oerr != nil && oerr != errInconclusive {
			ev.Violate(json.RawMessage(rf.Case), "", "%v", oerr)
			t.Fatalf("%v", oerr)
		}
		return
	}
	if rf.Sub == "generated" {
		var c C06Gen
		json.Unmarshal(rf.Case, &c)
		if _, oerr := c06GenOracle(c); oerr != nil {
			ev.Violate(json.RawMessage(rf.Case), "", "%v", oerr)
			t.Fatalf("%v", oerr)
		}
		return
	}
	var w struct {
		Dist string `json:"dist"`
		File string `json:"file"`
	}
	json.Unmarshal(rf.Case, &w)
	b, err := BuildShipped(Config{Dist: w.Dist, ABI: 3, Version: "3.0"}, false)
	defer b.Clean()
	if err != nil {
		t.Fatalf("INFRA: %v", err)
	}
	ov, err := tunablesOverlay(b.Apparmord(), "replay")
	defer os.RemoveAll(ov)
	if err != nil {
		t.Fatalf("INFRA: %v", err)
	}
	pre, att, ok := splitBuilt(readFile(filepath.Join(b.Apparmord(), w.File)))
	if !ok {
		t.Fatalf("INFRA: no attachment in %s", w.File)
	}
	if res := compareAttachment(Ref{Base: ov}, pre, att); !res.ok && !res.inconclusive {
		ev.Violate(json.RawMessage(rf.Case), "", "%s: %s: %s", w.Dist, w.File, res.msg)
		t.Fatalf("%s: %s: %s", w.Dist, w.File, res.msg)
	}
}
