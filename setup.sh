#!/bin/bash
# Builds the framework offline from files on disk only (module cache + /repo).
set -e
cd "$(dirname "$0")/harness"
export GOFLAGS=-mod=mod GOPROXY=off GOSUMDB=off GOTOOLCHAIN=local CGO_ENABLED=0
go version
test -x /usr/sbin/apparmor_parser || { echo "apparmor_parser missing"; exit 1; }
go vet . >/dev/null
go test -tags verif -c -o /dev/null .
echo "setup ok"
