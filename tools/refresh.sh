#!/bin/bash
# tools/refresh.sh [tier]: run every registered check in /verif against /repo (refreshes evidence/*.json)
cd "$(dirname "$0")/.."
tier=${1:-quick}
for p in C01 C02 C03 C04 C05 C06 C07 C08 C09 C10 C11 C12 C13 C14 C15 C16 C17 C18 C19; do
  start=$(date +%s)
  ./check $p --tier $tier > /tmp/refresh-$p.log 2>&1
  rc=$?
  echo "$p rc=$rc $(( $(date +%s) - start ))s $(grep -c '^KNOWN-FINDING' /tmp/refresh-$p.log) known $(grep -c '^VIOLATION' /tmp/refresh-$p.log) violations :: $(grep '^\[driver\]' /tmp/refresh-$p.log | tail -1)"
done
