#!/usr/bin/python3
"""tools/seeded_all.py [-j N] [ids...]: run the quick check of each seeded defect's property against a
scratch worktree of /repo HEAD with the defect applied; expect a violation. Writes seeded/RESULTS.json.
(development tool: the worktrees live under /tmp/sa and are removed)"""
import json, os, re, shutil, subprocess, sys, concurrent.futures as cf

ENV = dict(os.environ, GOFLAGS="-mod=mod", GOPROXY="off", GOSUMDB="off", GOTOOLCHAIN="local")
VERIF = os.path.dirname(os.path.dirname(os.path.abspath(__file__)))


def sh(cmd, cwd=None, env=ENV, timeout=7200):
    p = subprocess.run(cmd, shell=True, cwd=cwd, env=env, stdout=subprocess.PIPE, stderr=subprocess.STDOUT, text=True, timeout=timeout)
    return p.returncode, p.stdout


def one(sid):
    d = os.path.join(VERIF, "seeded", sid)
    prop = sid.split("-")[0]
    meta = json.load(open(os.path.join(d, "meta.json")))
    props = [prop]
    # a change kept under one property may be a violation of another one (recorded in meta)
    props = meta.get("caught_by", props)
    wt = "/tmp/sa/" + sid
    shutil.rmtree(wt, ignore_errors=True)
    sh("git -C /repo worktree prune")
    rc, out = sh("git -C /repo worktree add -q --detach %s HEAD" % wt)
    if rc != 0:
        return sid, {"error": out[-300:]}
    res = {}
    try:
        rc, out = sh("git apply %s" % os.path.join(d, "patch.diff"), cwd=wt)
        if rc != 0:
            return sid, {"error": "patch does not apply at HEAD: " + out[-200:]}
        for p in props:
            rc, out = sh("./check %s --tier quick" % p, cwd=VERIF, env=dict(ENV, VERIF_REPO=wt, VERIF_REPLAY_OUT="/tmp/sa/replays-" + sid))
            res[p] = {"exit": rc, "violations": len(re.findall(r"^VIOLATION", out, re.M))}
    finally:
        sh("git -C /repo worktree remove --force %s" % wt)
        shutil.rmtree("/tmp/sa/replays-" + sid, ignore_errors=True)
    return sid, res


def main():
    args = sys.argv[1:]
    j = 3
    if args and args[0] == "-j":
        j = int(args[1]); args = args[2:]
    ids = args or sorted(x for x in os.listdir(os.path.join(VERIF, "seeded")) if os.path.isdir(os.path.join(VERIF, "seeded", x)))
    os.makedirs("/tmp/sa", exist_ok=True)
    results = {}
    with cf.ThreadPoolExecutor(max_workers=j) as ex:
        for sid, res in ex.map(one, ids):
            caught = any(v.get("exit") == 1 for v in res.values() if isinstance(v, dict))
            print(sid, "CAUGHT" if caught else "MISSED", res, flush=True)
            results[sid] = dict(caught=caught, detail=res)
    out = os.path.join(VERIF, "seeded", "RESULTS.json")
    old = json.load(open(out)) if os.path.exists(out) else {}
    old.update(results)
    json.dump(old, open(out, "w"), indent=1, sort_keys=True)
    shutil.rmtree("/tmp/sa", ignore_errors=True)
    missed = [k for k, v in results.items() if not v["caught"]]
    print("missed:", missed)

main()
