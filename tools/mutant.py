#!/usr/bin/python3
"""Confirm a seeded defect and run the checks against it (development tool).

  tools/mutant.py <srcdir with patch.diff meta.json demo*> <seeded-id> <check ids...>

1. in a fresh scratch worktree of /repo: demo passes without the patch; with the patch
   the tree builds, the demo fails, the existing test-suite stays green;
2. the listed checks (quick tier) are run against the patched worktree (VERIF_REPO);
3. everything is stored under /verif/seeded/<id>/ with what was run and what was seen;
4. the worktree and its build output are removed.
"""
import json, os, re, shutil, subprocess, sys, glob, time

ENV = dict(os.environ, GOFLAGS="-mod=mod", GOPROXY="off", GOSUMDB="off", GOTOOLCHAIN="local")
ALLOWED_FAIL = ("TestSelectLogFile", "TestTask_Apply", "Test_Prebuild", "Test_main")

def sh(cmd, cwd=None, env=ENV, timeout=3600):
    p = subprocess.run(cmd, shell=True, cwd=cwd, env=env, stdout=subprocess.PIPE, stderr=subprocess.STDOUT, text=True, timeout=timeout)
    return p.returncode, p.stdout

def main():
    src, sid, checks = sys.argv[1], sys.argv[2], sys.argv[3:]
    meta = json.load(open(os.path.join(src, "meta.json")))
    wt = "/tmp/mw/" + sid
    shutil.rmtree(wt, ignore_errors=True)
    sh("git -C /repo worktree prune")
    rc, out = sh("git -C /repo worktree add -q --detach %s HEAD" % wt)
    assert rc == 0, out
    report = {"confirmed_at_repo_head": sh("git -C /repo rev-parse --short HEAD")[1].strip()}
    try:
        demos = [f for f in os.listdir(src) if f.startswith("demo")]
        demo = demos[0]
        text = json.dumps(meta)
        ddir = "pkg/aa"
        for cand in re.findall(r"((?:pkg|cmd)/[A-Za-z0-9_/-]+)", meta.get("demo", "") + " " + meta.get("demo_cmd", "")):
            cand = cand.rstrip("/")
            while cand and not os.path.isdir(os.path.join(wt, cand)):
                cand = os.path.dirname(cand)
            if cand and cand not in ("pkg", "cmd"):
                ddir = cand
                break
        if demo.endswith(".go"):
            m = re.search(r"-run\s+'?\"?([A-Za-z0-9_|^$]+)", meta.get("demo_cmd", ""))
            run_rx = m.group(1) if m else "Demo"
            dst = os.path.join(wt, ddir, "zz_" + sid.replace("-", "_") + "_demo_test.go")
            shutil.copy(os.path.join(src, demo), dst)
            demo_cmd = "go test -count=1 -run '%s' ./%s/" % (run_rx, ddir)
        else:
            dst = os.path.join(wt, demo)
            shutil.copy(os.path.join(src, demo), dst)
            demo_cmd = "bash ./" + demo
        rc0, out0 = sh(demo_cmd, cwd=wt)
        report["demo_without_patch_rc"] = rc0
        rc, out = sh("git apply %s" % os.path.abspath(os.path.join(src, "patch.diff")), cwd=wt)
        assert rc == 0, "patch does not apply: " + out
        rcb, outb = sh("go build ./... && go vet ./pkg/... ./cmd/... ", cwd=wt)
        report["build_rc"] = rcb
        rc1, out1 = sh(demo_cmd, cwd=wt)
        report["demo_with_patch_rc"] = rc1
        report["demo_with_patch_tail"] = out1[-600:]
        os.remove(dst)
        # existing suite
        rct, outt = sh("go test -count=1 -p 1 ./pkg/... ./cmd/aa-log/ 2>&1", cwd=wt)
        fails = [l for l in outt.splitlines() if l.startswith("--- FAIL") or l.startswith("    --- FAIL")]
        bad = [l for l in fails if not any(a in l for a in ALLOWED_FAIL)]
        report["suite_unexpected_failures"] = bad
        report["confirmed"] = bool(rc0 == 0 and rcb == 0 and rc1 != 0 and not bad)
        # checks
        res = {}
        for c in checks:
            t0 = time.time()
            rc, out = sh("./check %s --tier quick" % c, cwd="/verif", env=dict(ENV, VERIF_REPO=wt, VERIF_REPLAY_OUT="/tmp/mw/replays-" + sid))
            viol = [l for l in out.splitlines() if l.startswith("VIOLATION")]
            res[c] = {"exit": rc, "violations": len(viol), "first": (out.split("VIOLATION", 1)[1][:700] if viol else out[-300:]), "wall_s": round(time.time() - t0, 1)}
        report["checks"] = res
    finally:
        sh("git -C /repo worktree remove --force %s" % wt)
        shutil.rmtree("/tmp/mw/replays-" + sid, ignore_errors=True)
    out = os.path.join("/verif/seeded", sid)
    os.makedirs(out, exist_ok=True)
    shutil.copy(os.path.join(src, "patch.diff"), out)
    for d in demos:
        shutil.copy(os.path.join(src, d), out)
    meta["verification"] = report
    meta["ran"] = ["demo without/with patch in scratch worktree", "go build + vet", "go test -p 1 ./pkg/... ./cmd/aa-log/", "./check <id> --tier quick with VERIF_REPO=<patched worktree>"]
    json.dump(meta, open(os.path.join(out, "meta.json"), "w"), indent=1)
    print(sid, "confirmed=%s" % report.get("confirmed"), {c: (r["exit"], r["violations"]) for c, r in report.get("checks", {}).items()})

if __name__ == "__main__":
    main()
