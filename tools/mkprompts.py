#!/usr/bin/python3
"""tools/mkprompts.py C14 C15 ... : creates /tmp/wt/<id> worktrees and /tmp/wt/<id>.prompt.txt"""
import json, os, subprocess, sys
os.makedirs("/tmp/wt", exist_ok=True)
props = {json.loads(l)["id"]: json.loads(l) for l in open("/verif/properties.jsonl")}
tmpl = open("/verif/tools/mutant_prompt.txt").read()
for pid in sys.argv[1:]:
    p = props[pid]
    wt = "/tmp/wt/" + pid
    if not os.path.isdir(wt):
        subprocess.run(["git", "-C", "/repo", "worktree", "add", "-q", "--detach", wt, "HEAD"], check=True)
    prop = "%s — %s\n\n%s\n\nQuantifier: %s\n" % (pid, p["title"], p["statement"], p["quantifier"]["text"])
    n = "3"
    # later rounds: name the mechanisms the property is anchored in and what earlier
    # rounds already changed (from the seeded meta.json files), so new root causes come back
    import glob
    prior = []
    for m in sorted(glob.glob("/verif/seeded/%s-*/meta.json" % pid)):
        try:
            d = json.load(open(m))
            prior.append("  - %s: %s" % (", ".join(d.get("files", []))[:120], str(d.get("summary", ""))[:220].replace("\n", " ")))
        except Exception:
            pass
    if prior:
        n = "4"
        # files the property is anchored in that no earlier change has touched
        touched = set()
        for m in glob.glob("/verif/seeded/*/meta.json"):
            try:
                for f in json.load(open(m)).get("files", []):
                    touched.add(f.split(" ")[0])
            except Exception:
                pass
        fresh = []
        for pat in p["anchors"].get("files", []):
            for f in sorted(glob.glob(os.path.join("/repo", pat), recursive=True)):
                rel = os.path.relpath(f, "/repo")
                if os.path.isfile(f) and rel not in touched and not rel.endswith("_test.go") and (rel.startswith("pkg/") or rel.startswith("cmd/")):
                    fresh.append(rel)
        fresh = sorted(set(fresh))[:25]
        mech = "\n".join("  - %s (%s)" % (a["name"], a["where"]) for a in p["anchors"].get("mechanism", []))
        prop += "\nMechanisms the property rests on:\n" + mech + "\n"
        if fresh:
            prop += "\nCode the property depends on that no earlier change has touched yet - prefer sites in these files (and in the tables / templates they hold):\n  " + "\n  ".join(fresh) + "\n"
        prop += "\nAn earlier round already produced these changes - do NOT repeat them or close variants; find other root causes, other code sites, other parts of the statement:\n" + "\n".join(prior) + "\n"
    open("/tmp/wt/%s.prompt.txt" % pid, "w").write(tmpl.replace("__WT__", wt).replace("__PROP__", prop).replace("__N__", n))
    print("ok", pid)
