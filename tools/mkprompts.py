#!/usr/bin/python3
"""tools/mkprompts.py C14 C15 ... : creates /tmp/wt/<id> worktrees and /tmp/wt/<id>.prompt.txt"""
import json, os, subprocess, sys
os.makedirs("/tmp/wt", exist_ok=True)
props = {json.loads(l)["id"]: json.loads(l) for l in open("/verif/properties.jsonl")}
tmpl = open("/verif/tools/mutant_prompt.txt").read()
for pid in sys.argv[1:]:
    p = props[pid]
    wt = "/tmp/wt/" + pid
    if not os.path.isdir(wt):
        subprocess.run(["git", "-C", "/repo", "worktree", "add", "-q", "--detach", wt, "HEAD"], check=True)
    prop = "%s — %s\n\n%s\n\nQuantifier: %s\n" % (pid, p["title"], p["statement"], p["quantifier"]["text"])
    n = "3"
    open("/tmp/wt/%s.prompt.txt" % pid, "w").write(tmpl.replace("__WT__", wt).replace("__PROP__", prop).replace("__N__", n))
    print("ok", pid)
