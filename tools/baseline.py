#!/usr/bin/python3
"""Runs the repository's test-suite (guard OFF: no build tag) and compares with BASELINE.json's stable_pass list."""
import json, subprocess, sys, os
base = json.load(open("/root/.vp/BASELINE.json"))
stable = set(base["stable_pass"])
env = dict(os.environ, GOFLAGS="-mod=mod", GOPROXY="off", GOSUMDB="off", GOTOOLCHAIN="local")
p = subprocess.run("go test -json -vet=off -count=1 -timeout 25m ./...", shell=True, cwd="/repo", env=env, stdout=subprocess.PIPE, stderr=subprocess.STDOUT, text=True)
res = {}
for l in p.stdout.splitlines():
    try:
        e = json.loads(l)
    except Exception:
        continue
    if e.get("Test") and e.get("Action") in ("pass", "fail", "skip"):
        res[e["Package"] + "::" + e["Test"]] = e["Action"]
missing = sorted(t for t in stable if res.get(t) != "pass")
print("stable_pass: %d, passing now: %d, not passing: %d" % (len(stable), len(stable) - len(missing), len(missing)))
for t in missing[:40]:
    print("  ", t, res.get(t))
sys.exit(1 if missing else 0)
