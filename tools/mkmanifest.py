#!/usr/bin/python3
"""Regenerates /verif/MANIFEST.json from the table below (keeps it schema-valid)."""
import json, os, subprocess
VERIF = os.path.dirname(os.path.dirname(os.path.abspath(__file__)))
ALL = ["C%02d" % i for i in range(1, 20)]

# id -> (technique, level text, level note, design ref)
CLAIMED = {
 "C18": ("metamorphic comparison of real builds that differ in exactly one option: every differing line and file classified by an independent tokenizer against what the option governs (enumeration of ~255 pairs in thorough, a covering sample in quick)",
         "Pairs of real builds of the shipped tree at Hamming distance one in (mode, ABI, version, distribution, full) - the cross ABI/version pairs isolate the ABI from the version - are diffed line by line (LCS per file) and by file set; each difference must belong to the class the option governs: block-header flags for the mode; abi declaration, commented AppArmor-4-only rules, abiN-guarded lines, overwrite renames and disable/ links for the ABI; apparmorX.Y-guarded lines and the documented configure additions/removals for the version; distribution/family-guarded lines, files governed by the ignore lists / configure overlay (per the prepare model), manifest header flags for the distribution; exec mode (pu|u)x <-> px without target, the _full profiles and the three documented edits for full.",
         "Trusts the classifier in c18_test.go (guarded lines are recognised by their text in the source tree, globally, so that stacked content is covered); pure comment lines are counted, not judged (regex builders rewrite them, they are not policy); lines left over on both sides of a file after alignment are alignment artefacts.",
         "DESIGN.md §2 C18"),
 "C12": ("differential against the reference parser: the library's text vs. an independent canonical printer's text of the same fields, both compiled by apparmor_parser and compared as automata (rapid-generated rule structs, merged+formatted blocks, rules printed from generated logs)",
         "Generated rule structs of every kind AppArmor 3 knows, blocks after Merge/Sort/Format, and rules printed from generated log records are wrapped in a stub profile: the reference parser must accept the library's text and compile it (-M abi/3.0) to the same policy - attachment, policydb and file automata, exec table - as the canonical spelling of the same fields written by an independent printer. Rules printed from well-formed logs must load whatever their values are. Counts of judged / discarded cases are reported per kind.",
         "Trusts apparmor_parser 3.0.8 as judge of 'same access, subject, conditions, peer and target' and the canonical printer in c12_test.go. A case whose canonical text the reference rejects has values that are not valid for AppArmor 3 and is discarded (counted). Two listed known findings (unix protocol=, ix with target) are excluded from the log generator and kept under fixed witnesses.",
         "DESIGN.md §2 C12"),
 "C16": ("rapid property-based testing of generated log records through the aa-log --rules pipeline; coverage of each record judged by the reference parser's compiled file automaton (file classes) and by the rule fields (other classes)",
         "Generated kernel / dbus-daemon records of every class the tool maps, with names drawn from path families around every generalisation rewrite (home dirs, lib and bin dirs incl. shells and look-alikes, multiarch triples, /proc pids and tids, pci and block devices, udev data, uuid / hex / decimal runs at every threshold length, case variants) go through logs.New + ParseToProfiles + Merge/Sort/Format; for file, exec and link records the generated rules are compiled by the reference parser over the shipped tunables and the recorded name must be granted the requested permissions in the owner or other half according to fsuid/ouid; for the other classes the recorded values must be in a rule of the right kind and qualifier.",
         "Trusts apparmor_parser 3.0.8 + the shipped tunables and the DFA interpreter (self-tested); names under /att/ (attach_disconnected.path, a disabled builder) and shared objects right under a lib directory (documented noise, C14) are outside the generator; pids are at most pid_max. One listed known finding (exec record with a target) is excluded and kept under a fixed witness.",
         "DESIGN.md §2 C16"),
 "C07": ("rapid property-based testing of generated directive arguments against independent models (dbus predicate, exec language equality judged by the reference parser, stack line model) plus a locality relation for several directives in one file (metamorphic) and a sweep of real builds for leftover directives",
         "Real builds (30 cells thorough, 4 quick) are swept for surviving '#aa:' markers. Generated dbus directives are read back by an independent tokenizer and checked against the predicate of docs/development/dbus.md (bus, bind, path, interfaces, directions, peer label), every 5th case also by the reference parser. Generated profile sets exercise exec (1-3 targets, 7 transition spellings: the generated rules must compile to the same file automaton as the targets' own @{exec_path}) and stack (1-3 stacked profiles, X and non-X, bodies with look-alike rules: line model of what is inserted, where, in which order), each expanded several times in one process. Hosts with 2-3 dbus / exec directives - in half of the cases one directive line a textual prefix of another - must expand to the splice of what each directive yields alone.",
         "Trusts the tokenizer/predicate and the stack line model in c07_test.go, apparmor_parser 3.0.8 for exec language equality; stacked bodies in the line model hold no directives of their own (directives inside stacked profiles are covered by the leftovers sweep on the real systemd profiles).",
         "DESIGN.md §2 C07"),
 "C06": ("differential against the reference parser: compiled attachment automata of '@{exec_path}' vs. the resolved literal (product walk with shortest witness), enumerated over the shipped profiles x distributions and rapid-generated preambles",
         "For real builds (5 distributions thorough; 2 distributions x all profiles quick) every profile with a resolved @{exec_path} attachment is compared with the reference parser's own expansion: two stub profiles - the file's own preamble with the variable and with the literal header attachment - are compiled over upstream + built tunables and their attachment automata must be equivalent on all path names. Generated preambles (local variables, several values, appends, nested shipped tunables, in half of the cases after another profile that appends to built-in variables in the same process) go through the userspace builder in-process with the same oracle. The exec-directive half of the statement is decided by the exec stage shared with C07.",
         "Trusts apparmor_parser 3.0.8, the blob/DFA reader (self-tested on every run) and the product walk; equivalence is over kernel path names (no NUL, no empty component). The built-in variable table drift (HOME, user_share_dirs, version, arch, opensuse multiarch) is a listed known finding: 11 shipped profiles by name, the opensuse class by its witness, and the corresponding variables are excluded from the generated preambles.",
         "DESIGN.md §2 C06"),
 "C08": ("exhaustive enumeration of the 30 name-relevant builds with the real binary, scanned by an independent reference-graph scanner (definitions vs. named uses), plus a complete source-side scan of directives and manifests",
         "Finite domain, enumerated completely on every run: every (distribution, ABI, version, full) build is scanned for profile / sub-profile / hat definitions (plus the upstream policy directory it is laid over) and for named uses (exec targets incl. child and stacked ones, change_profile targets, AppArmorProfile= of the drop-ins); variable targets are expanded with the reference parser's expansion of the built tunables. Source side: every name in exec/stack directives, flags manifests and the overwrite list. Nine genuine data defects are listed as known findings keyed by (user, target).",
         "Trusts the block/rule scanner in c08_test.go; pattern targets (globs, e.g. libvirt-@{uuid}) denote run-time profiles and are accepted; 'unconfined' and namespaces are not references; children used in an abstraction resolve against its includers.",
         "DESIGN.md §2 C08"),
 "C04": ("exhaustive enumeration of the 60 prepare configurations on the shipped tree plus rapid-generated source trees (manifests, ignore lists, overwrite list, overlays, drop-ins, stale build content), each run through the real main package (hooked to stop after the prepare stage) against an independent model of the documented prepare steps (differential, both directions)",
         "For all 60 (distribution, ABI, version incl. cross pairs, full) configurations on the shipped tree, and for 400 (quick) / 8000 (thorough) generated source trees in one drawn configuration each, the real binary (built with -tags verif, stopped after cli.Prepare by the VERIF_PREPARE_ONLY hook, started over a polluted build directory) is compared with a model written from docs/development/build.md, workflow.md and the statement: expected file set (ignore lists, flattening, configure deltas, overwrite renames + disable/ links, full-system-policy installs, drop-ins), no clashing output names, and contents equal to the source except for manifest flags and the two documented --full edits. Both directions: nothing missing, nothing extra.",
         "Trusts the prepare model in c04_test.go. The hook only adds an early exit after cli.Prepare() in the real main package, so the task list registered by main.go's init() is what runs. Generated trees stay inside what the shipped tree shows to be accepted (one level below group directories, the full-system-policy group always ignored by path, unique names unless dropped by an ignore list, single-blank manifest lines).",
         "DESIGN.md §2 C04"),
 "C02": ("rapid stateful testing over build-directory histories with the real binary (model: a fresh build), repeated fresh builds in separate processes, generated processing orders in fresh child processes, and generated source trees in which the same profile stands before and after the profiles it names (twins, real binary)",
         "Histories (earlier builds of other configurations and nine kinds of pollution of .build, then a final build) are generated by rapid and the final manifest must equal that of a fresh build; k fresh builds per configuration in separate processes must agree (each process draws its own map iteration orders); the prepare-stage tree of a real --full build is processed by child processes in generated subsets and orders, and every file's output digest must not depend on what was processed before it; generated source trees with a stack / exec host and a variable user written twice, around their targets and around a profile appending to built-in variables, are built by the real binary and the two copies must be equal up to the name; generated dbus / exec / stack directives are expanded repeatedly in one process.",
         "Map-order dependence is probabilistic per run: a two-way dependence escapes k repetitions with probability 2^(1-k) (k = 3 quick, 8 thorough). The order check re-implements cli.Build's per-file loop (builder.Run then directive.Run) in a child process of the test binary.",
         "DESIGN.md §2 C02"),
 "C05": ("metamorphic comparison of real builds in the three modes (none / complain / enforce) read by an independent header scanner, plus rapid-generated multi-block profiles through the in-process builder chain",
         "For every (distribution, ABI, version, full) cell - all 30 in thorough, a covering sample of 4 in quick - the shipped tree is built three times with the real binary and every block header of every file is compared across modes: same header apart from flags, flags(complain) = flags(none) + complain, flags(enforce) = flags(none) - complain; the flags of the none build equal the manifest entry where the prepare model finds one for the file and the source flags otherwise. Generated files (1-4 blocks, sub-profiles and hats with their own flags, separators ',' and ', ', glued braces, xattrs, quoted names) go through the in-process chain with the same oracle, and their non-header lines must not depend on the mode.",
         "Trusts the header scanner in c05_test.go (block header = line ending in '{' whose first token is profile, hat or starts with '^'). Which source file and manifest entry stand behind a built file comes from C04's prepare model.",
         "DESIGN.md §2 C05"),
 "C01": ("enumeration of build configurations with the real binary, every built file judged by the reference parser apparmor_parser 3.0.8 (differential against the reference implementation)",
         "The shipped tree is built with the real prebuild binary - all 90 primary configurations in thorough (plus full DFA compilation of 10), a seeded covering sample of 8 in quick - and every top-level policy file of each build is parsed by the reference parser over an overlay of the upstream policy directory and the build output; abstractions, tunables and mappings are exercised through the include closure of the profiles, which is measured and reported. For ABI 4 only the normalisation the property grants is applied.",
         "Trusts apparmor_parser 3.0.8 + the upstream 3.0.8 policy tree as the reference (rule kinds and flags newer than that are unseen, as the property allows); for version 4.1 the five files configure removes are taken from the source tree as stand-ins for upstream 4.1; the ABI-4 normaliser is a line tokenizer in c01_test.go.",
         "DESIGN.md §2 C01"),
 "C17": ("exhaustive enumeration of the ~355 shipped rules x --full configurations with the real binary (metamorphic: full vs normal build), plus rapid-generated profiles through the registered builder chain vs. an independent line tokenizer",
         "Every source rule written rPUx / rUx without a target is located by an independent tokenizer and looked up (same file, path token, ordinal) in real --full builds - all 45 configurations in thorough, a covering sample of 6 in quick - where its access token must be 'rpx'; the normal build of the same configuration may differ from the source in letter case only. Generated profiles (all spacing / qualifier / comment shapes and look-alikes) go through the in-process builder chain of a full build with complain/enforce/abi3 variants.",
         "Trusts the line tokenizer in c17_test.go and the pairing of source and built rules by case-folded path token and ordinal; rules absent from a build (ignored file, only/exclude filter) are counted, not judged.",
         "DESIGN.md §2 C17"),
 "C19": ("exhaustive enumeration of the shipped profile and abstraction files with an independent layout scanner; the scanner itself is validated by rapid-generated contract-breaking edits (metamorphic)",
         "All ~1550 profile files and the linted abstraction directories are scanned completely on every run (abi 4.0, profile named after the file, attachment = own @{exec_path}, local includes for profile and sub-profiles, abstraction .d include, unique base names). Because an enumeration is only as good as its predicate, rapid mutates conforming shipped files (8 kinds of contract-breaking edit) and requires the scanner to flag each.",
         "Trusts the scanner in c19_test.go, written from tests/check.sh and the statement.",
         "DESIGN.md §2 C19"),
 "C14": ("rapid property-based testing: generated log files vs. a reference model of the documented selection, in-process and through the real aa-log binary (metamorphic: two runs, same bytes)",
         "Generated search over log files (1-40 lines: records of all three states in kernel and dbus style with unique tokens, repeats differing in timestamp/pid, variants of a record that differ only in a twin name generalised to the same pattern or in the fsuid (two accesses, both reported), names right next to the noise paths, STATUS records, foreign lines, noise-path records, blank/garbled/binary lines and lines > 64 KiB, in audit, syslog and journald-JSON framing, with and without a profile filter incl. filters with '.'): the token sequence reported by the library reader, and by the real binary in list and raw mode, must equal the model's (nothing lost, nothing invented, input order, once); the listing rendered five times and every binary mode run twice must give identical bytes; exit status 0.",
         "Trusts the selection model in c14_test.go; noise exemplars are the documented base-abstraction paths (no borderline spellings); unrelated journal entries are valid JSON (journalctl --output=json always writes valid JSON); output determinism is probabilistic per case (map order), bounded by repetition.",
         "DESIGN.md §2 C14"),
 "C15": ("rapid property-based testing: log records generated from a field map with kernel / dbus-daemon encoding vs. the field map itself (round trip through the encoder model)",
         "Generated search: 1-4 records per file built from known field values (any key order, any subset of optional fields, values with spaces, '=', '#', ',', control bytes, UTF-8, hex-looking values, look-alike keys such as hostname/srcname, malformed records in front), encoded as the kernel's audit_log_untrustedstring or dbus-daemon would; logs.New must return, for every well-formed record, exactly those values and no others. 25k files per quick run.",
         "Trusts the encoder model in c15_test.go (hex when a byte is < 0x21, > 0x7e or '\"'); profile/name/target values come from an alphabet that the documented generalisation leaves alone (generalisation is C16's subject); pid/peer_pid are not compared. One listed known finding is excluded by construction (hex value containing a double quote) and kept under a fixed witness.",
         "DESIGN.md §2 C15"),
 "C03": ("rapid property-based testing: generated directive-bearing texts x 30 targets vs. an independent line model; exhaustive enumeration of the shipped uses x 30 targets; real builds judged line by line",
         "Generated search: profile/sub-profile/abstraction/tunable texts from a segment model (unguarded lines, inline and paragraph directives, repeated identical directives, 1-3 filters from distributions, families, ABI, version and non-matching words) for one of the 30 (distribution, ABI, version incl. cross pairs) targets; the non-blank lines produced by directive.Run must equal those of an independent model written from the documentation, and no marker may survive. The 43 shipped uses are enumerated completely against all 30 targets with the same oracle. Real builds (7 configurations quick, 30 thorough): every guarded rule line that is unique in its file must be present in the built file exactly when the program's own target (DISTRIBUTION -> family table, --abi, --version) matches the filter list.",
         "Trusts the line model in c03_test.go (family table from docs/development/directives.md); blank lines are not compared (the implementation legitimately leaves an empty line where a rule was). In-process the target globals are set directly; the CLI plumbing and the real family table are covered by the real-build stage.",
         "DESIGN.md §2 C03"),
 "C13": ("rapid property-based testing: generated preambles vs. an independent cartesian expander and the reference parser's own variable expansion (differential)",
         "Generated search over preamble layouts (definitions in any order, appends anywhere after the definition, interleaved comment/abi/include/alias lines, references nested to any depth, repeated and adjacent references): every variable and attachment must equal an independent 20-line cartesian expander, and on every 4th case apparmor_parser's -D expanded-variables output; the non-variable preamble rules must survive unchanged and in order; injected faults (undefined reference, self-reference, second '=') must give an error, not a panic, and be rejected by the reference too.",
         "Trusts apparmor_parser 3.0.8 as the reference expansion, the model expander in c13_test.go, set comparison after collapsing '//'. Indirect reference cycles are not generated (not listed by the statement; they would overflow the stack of the test process). A reference-parser hang (seen on ~0.1% of valid inputs) is counted as inconclusive.",
         "DESIGN.md §2 C13"),
 "C09": ("rapid property-based testing: print/parse round trip on generated rule structs, alternative spellings, formatted blocks and profile files",
         "Generated search over four domains: (A) rule structs of every kind with composed AARE values and comments, (B) the same rules in alternative valid spellings, parsed first, (C) blocks after Merge+Sort+Format, (D) profile files (preamble + header). Oracle is the round trip itself: parse(print(r)) == r field by field and print(parse(print(r))) == print(r) byte for byte. Tens of thousands of cases per quick run, millions thorough.",
         "Trusts the reflection bridge and the stated generator domain: Unix attr/opt (never printed, rejected by AppArmor), 'allow' == no qualifier, annotation flags compared through the rendered comment text, comments not ending in '}', a network rule with type packet and no family (cannot be written down).",
         "DESIGN.md §2 C09"),
 "C10": ("rapid property-based testing: generated near-duplicate rule lists vs. an independent fact-set denotation (reference-compiler differential for ABI-3 kinds)",
         "Generated search: 40k lists per quick run (1.6M thorough) of 2-12 rules in which two thirds are near-duplicates of an earlier rule; an independent denotation (rule -> set of qualifier/subject/permission facts, written from apparmor.d(5)) must be unchanged by Merge, and Merge must be idempotent. Fixed witnesses keep every repaired finding under regression.",
         "Trusts the denotation in c10_test.go (which lists are disjunctive, that an absent list means 'all') and the reflection bridge; conflicting exec transitions on one path are not generated (invalid policy).",
         "DESIGN.md §2 C10"),
 "C11": ("rapid property-based testing: generated pairs/triples/permuted lists vs. order axioms, plus the same lists sorted by fresh child processes (comparison without memory)",
         "Generated search: 50k pairs, 50k triples, 4k permuted lists per quick run (millions thorough) from a narrow vocabulary where near-duplicates are the norm; antisymmetry, reflexivity, transitivity, equal=>identical and permutation-independence / idempotence of Sort are checked on every case; 480 (quick) lists are also sorted by two fresh child processes in different orders and by the long-running parent, and the three results must agree. No proof of absence: a violation confined to values outside the vocabulary is not reached.",
         "Trusts rapid's generators/shrinker and the harness' reflection bridge (rs.go) between field maps and the library structs; Comment rules are outside the domain (documented as never compared).",
         "DESIGN.md §2 C11"),
}
NOT_YET = "check not built yet in this session (planned, see DESIGN.md §8)"

def hook_commits():
    try:
        out = subprocess.run(["git", "-C", "/repo", "log", "--format=%H %s"], capture_output=True, text=True).stdout
        return [l.split()[0] for l in out.splitlines() if "verif hook" in l]
    except Exception:
        return []

checks = []
for pid in ALL:
    if pid not in CLAIMED:
        continue
    tech, text, note, ref = CLAIMED[pid]
    checks.append({
        "property_id": pid,
        "quick_cmd": "./check %s --tier quick" % pid,
        "thorough_cmd": "./check %s --tier thorough" % pid,
        "evidence_file": "/verif/evidence/%s.json" % pid,
        "replay_cmd_template": "./check %s --replay {path}" % pid,
        "engine": "harness",
        "level_claimed": {"category": "exploration", "text": text, "design_ref": ref},
        "level_note": note,
        "technique": tech,
    })
m = {
 "version": 1,
 "setup_cmd": "./setup.sh",
 "hooks": {
   "guard": "verif",
   "enable": "go build -tags verif (the driver ./check builds cmd/prebuild, cmd/aa-log and the harness test binary with -tags verif from /repo's working tree)",
   "baseline_off_cmd": "cd /repo && go build ./... && go test -vet=off -count=1 -timeout 25m ./...",
   "source_commits": hook_commits(),
   "add_only": True,
 },
 "engines": [{"name": "harness", "path": "/verif/harness", "serves_properties": sorted(CLAIMED),
              "kind_free_text": "Go test binary (pgregory.net/rapid v1.3.0 properties + enumerations) linked against /repo via a replace directive; driver /verif/check"}],
 "checks": checks,
 "notes": "Driver: ./check <id> --tier quick|thorough, VERIF_SEED honoured (0 is remapped to 1). Known findings: /verif/known_findings.txt. Exit 2 = inconclusive (infrastructure).",
 "not_applicable": [{"property_id": p, "reason": NOT_YET} for p in ALL if p not in CLAIMED],
}
json.dump(m, open(os.path.join(VERIF, "MANIFEST.json"), "w"), indent=1)
print("MANIFEST.json: %d claimed, %d not claimed" % (len(checks), len(m["not_applicable"])))
